"""File objects of the kinds a caller can hand to the library: the properties speak of "file objects", not of
io.BytesIO. Readers: in-memory, a real buffered file, a non-seekable buffered stream (what a pipe / stdin gives:
tell() and seek() raise), an object that has nothing but read(). Writers: in-memory, a real file, a non-seekable
buffered stream, an object that has nothing but write() (which returns None, as many wrappers do)."""
import io
import os
import tempfile

READ_KINDS = ('bytesio', 'file', 'pipe', 'minimal')
# further reader kinds, used where a check rotates through kinds: a buffered handle with a small buffer (peek() and
# read1() give at most the buffer), a member of a zip archive (a binary stream whose mode is 'r'), a memory map
MORE_READ_KINDS = ('smallbuf', 'zip', 'mmap')
ALL_READ_KINDS = READ_KINDS + MORE_READ_KINDS
# writers: the library's writers rewind their sink (seek(0)), so only seekable sinks are in their contract
WRITE_KINDS = ('bytesio', 'file', 'legacy')


class _RawIn(io.RawIOBase):
    def __init__(self, data):
        self._d = bytes(data)
        self._p = 0

    def readable(self):
        return True

    def seekable(self):
        return False

    def readinto(self, b):
        n = min(len(b), len(self._d) - self._p)
        b[:n] = self._d[self._p:self._p + n]
        self._p += n
        return n


class _RawOut(io.RawIOBase):
    def __init__(self):
        self.chunks = []

    def writable(self):
        return True

    def seekable(self):
        return False

    def write(self, b):
        self.chunks.append(bytes(b))
        return len(b)


class _RawSeekIn(_RawIn):
    def seekable(self):
        return True

    def seek(self, pos, whence=0):
        self._p = {0: pos, 1: self._p + pos, 2: len(self._d) + pos}[whence]
        return self._p

    def tell(self):
        return self._p


class LegacyWriter(object):
    """a seekable sink in the style of older file-like classes: write() and seek() return None"""

    def __init__(self):
        self._b = io.BytesIO()

    def write(self, b):
        self._b.write(b)

    def seek(self, pos, whence=0):
        self._b.seek(pos, whence)

    def tell(self):
        return self._b.tell()

    def flush(self):
        pass

    def close(self):
        pass

    def getvalue(self):
        return self._b.getvalue()


class MinimalReader(object):
    """only read(n)"""

    def __init__(self, data):
        self._b = io.BytesIO(bytes(data))

    def read(self, n=-1):
        return self._b.read(n)


class MinimalWriter(object):
    """only write(b), returning None"""

    def __init__(self):
        self.chunks = []

    def write(self, b):
        self.chunks.append(bytes(b))


def reader(kind, data):
    """-> (file object, cleanup())"""
    if kind == 'bytesio':
        return io.BytesIO(bytes(data)), lambda: None
    if kind == 'pipe':
        return io.BufferedReader(_RawIn(data)), lambda: None
    if kind == 'minimal':
        return MinimalReader(data), lambda: None
    if kind == 'smallbuf':
        return io.BufferedReader(_RawSeekIn(data), buffer_size=512), lambda: None
    if kind == 'zip':
        import zipfile
        z = io.BytesIO()
        with zipfile.ZipFile(z, 'w', zipfile.ZIP_STORED) as zf:
            zf.writestr('member.bin', bytes(data))
        zf = zipfile.ZipFile(io.BytesIO(z.getvalue()))
        fo = zf.open('member.bin')

        def done_zip():
            fo.close()
            zf.close()
        return fo, done_zip
    if kind == 'mmap' and len(data) > 0:
        import mmap
        m = mmap.mmap(-1, len(data))
        m.write(bytes(data))
        m.seek(0)
        return m, m.close
    if kind == 'mmap':
        return io.BytesIO(b''), lambda: None
    if kind == 'file':
        fd, path = tempfile.mkstemp(prefix='vf-in-')
        with os.fdopen(fd, 'wb') as f:
            f.write(bytes(data))
        fo = open(path, 'rb')

        def done():
            try:
                fo.close()
            finally:
                if os.path.exists(path):
                    os.unlink(path)
        return fo, done
    raise ValueError(kind)


def writer(kind):
    """-> (file object, content() -> bytes written so far (flushes), cleanup())"""
    if kind == 'bytesio':
        b = io.BytesIO()
        holder = {}

        def content():
            if not b.closed:
                holder['v'] = b.getvalue()
            return holder.get('v', b'')
        # keep the value reachable after close(): BytesIO drops it
        orig_close = b.close

        def close():
            holder['v'] = b.getvalue()
            orig_close()
        b.close = close
        return b, content, lambda: None
    if kind == 'pipe':
        raw = _RawOut()
        w = io.BufferedWriter(raw)

        def content():
            if not w.closed:
                w.flush()
            return b''.join(raw.chunks)
        return w, content, lambda: None
    if kind == 'minimal':
        m = MinimalWriter()
        return m, (lambda: b''.join(m.chunks)), lambda: None
    if kind == 'legacy':
        lw = LegacyWriter()
        return lw, lw.getvalue, lambda: None
    if kind == 'file':
        fd, path = tempfile.mkstemp(prefix='vf-out-')
        os.close(fd)
        fo = open(path, 'wb')

        def content():
            if not fo.closed:
                fo.flush()
            with open(path, 'rb') as f:
                return f.read()

        def done():
            try:
                if not fo.closed:
                    fo.close()
            finally:
                if os.path.exists(path):
                    os.unlink(path)
        return fo, content, done
    raise ValueError(kind)
