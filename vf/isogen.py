"""
Generators for well-formed ISO8583 messages: configurations (packaged + generated), value variants per field kind,
and the enumerated families (singles, pairs, long messages).  A message is described by a small JSON-able case
    {'cfg': 'PKG'|'GENn', 'enc': codec, 'hex': bool, 'seed': int, 'f': [[bit, kind, param], ...], 'pds': [[tag, len]..]}
from which the python dict is rebuilt deterministically (so a violation replays without the explorer).
"""
import datetime
import decimal

from vf.ref import iso_ref

DE43_REGEX = (r"(?P<DE43_NAME>.+?) *\\(?P<DE43_ADDRESS>.+?) *\\(?P<DE43_SUBURB>.+?) *\\"
              r"(?P<DE43_POSTCODE>.{10})(?P<DE43_STATE>.{3})(?P<DE43_COUNTRY>\S{3})$")

KINDS = [
    {'field_type': 'FIXED', 'field_length': 1},
    {'field_type': 'FIXED', 'field_length': 7},
    {'field_type': 'FIXED', 'field_length': 3, 'field_python_type': 'int'},
    {'field_type': 'LLVAR', 'field_length': 0, 'field_python_type': 'long'},     # variable-length number
    {'field_type': 'FIXED', 'field_length': 6, 'field_python_type': 'datetime', 'field_date_format': '%y%m%d'},
    {'field_type': 'FIXED', 'field_length': 12, 'field_python_type': 'datetime',
     'field_date_format': '%y%m%d%H%M%S'},
    {'field_type': 'FIXED', 'field_length': 8, 'field_python_type': 'decimal'},
    {'field_type': 'LLVAR', 'field_length': 0},
    {'field_type': 'LLLVAR', 'field_length': 0},
    {'field_type': 'LLVAR', 'field_length': 0, 'field_processor': 'PAN'},
    {'field_type': 'LLVAR', 'field_length': 0, 'field_processor': 'PAN-PREFIX'},
    {'field_type': 'LLLVAR', 'field_length': 0, 'field_processor': 'PDS'},
    {'field_type': 'LLLVAR', 'field_length': 0, 'field_processor': 'ICC'},
    {'field_type': 'LLVAR', 'field_length': 0, 'field_processor': 'DE43', 'field_processor_config': DE43_REGEX},
]

ENCODINGS_QUICK = ['latin_1', 'ascii', 'cp500', 'cp037']
ENCODINGS_ALL = ENCODINGS_QUICK + ['cp1140', 'cp273', 'cp1252', 'cp437']

_CFG = {}


_LIVE = {}


def set_live(cfg_obj):
    """a caller-owned configuration object that a sequence case edits in place between calls"""
    _LIVE['cfg'] = cfg_obj


def apply_edit(cfg, edit):
    """in-place edit of a configuration object: ['set', bit, key, value] | ['del', bit, key]"""
    if edit[0] == 'set':
        cfg[str(edit[1])][edit[2]] = edit[3]
    elif edit[0] == 'del':
        cfg[str(edit[1])].pop(edit[2], None)
    else:
        raise ValueError(edit)


def get_cfg(name):
    """'PKG' -> the packaged bit_config (read from the library under test, it is *configuration*, not code);
    'GENs' -> generated: every bit 2..127 configured, bit b has kind KINDS[(b+s) mod 14]"""
    if name == 'LIVE':
        import copy
        return copy.deepcopy(_LIVE['cfg'])      # the reference reads the content as it is now
    if name not in _CFG:
        if name.endswith('J'):
            # the same configuration after a JSON round trip (how cardutil.json / --config-file content arrives):
            # every key and string value is a fresh, non-interned object
            import json
            _CFG[name] = json.loads(json.dumps(get_cfg(name[:-1])))
        elif name == 'PKG':
            # a frozen private copy taken when first asked for: the reference models read this one, so a library that
            # mutates its own packaged configuration diverges from them instead of dragging them along
            import copy
            from cardutil.config import config
            _CFG[name] = copy.deepcopy(config['bit_config'])
        elif name.startswith('GEN'):
            # 'GENs' ascending key order; 'GENsS' the same configuration with its keys in string-sorted order
            # ('10' < '100' < '11' < ... < '2'), as a caller loading it from JSON written with sort_keys would have
            shuffled = name.endswith('S')
            s = int(name[3:].rstrip('S'))
            cfg = {'1': {'field_name': 'Bitmap secondary', 'field_type': 'FIXED', 'field_length': 8}}
            for b in range(2, 128):
                k = dict(KINDS[(b + s) % len(KINDS)])
                k['field_name'] = 'generated %d' % b
                cfg[str(b)] = k
            if shuffled:
                cfg = {k: cfg[k] for k in sorted(cfg)}
            _CFG[name] = cfg
        elif name == 'WIDE':
            # widths the packaged configuration never uses: fixed text far beyond 999 characters (no length prefix
            # limits a FIXED element), numbers and decimals with more digits than the default decimal context (28)
            # or a machine word carries
            _CFG[name] = {
                '1': {'field_name': 'Bitmap secondary', 'field_type': 'FIXED', 'field_length': 8},
                '2': {'field_name': 'w1500', 'field_type': 'FIXED', 'field_length': 1500},
                # 'field_name' is documentation only: entries without it, and with keys the library does not know
                '3': {'field_type': 'FIXED', 'field_length': 40, 'field_python_type': 'decimal',
                      'comment': 'site note'},
                '4': {'field_name': 'w1003', 'field_type': 'FIXED', 'field_length': 1003},
                '5': {'field_type': 'LLLVAR', 'field_length': 0},
                '6': {'field_name': 'int30', 'field_type': 'FIXED', 'field_length': 30, 'field_python_type': 'int'},
                '7': {'field_name': 'w2000', 'field_type': 'FIXED', 'field_length': 2000},
                '8': {'field_name': 'pan', 'field_type': 'LLVAR', 'field_length': 0, 'field_processor': 'PAN'},
                '9': {'field_name': 'dec31', 'field_type': 'FIXED', 'field_length': 31,
                      'field_python_type': 'decimal'},
                '10': {'field_name': 'pds', 'field_type': 'LLLVAR', 'field_length': 0, 'field_processor': 'PDS'},
                '11': {'field_type': 'FIXED', 'field_length': 3},
                '12': {'field_name': 'stamp with microseconds', 'field_type': 'FIXED', 'field_length': 20,
                       'field_python_type': 'datetime', 'field_date_format': '%Y%m%d%H%M%S%f'},
                '13': {'field_name': 'day first', 'field_type': 'FIXED', 'field_length': 8,
                       'field_python_type': 'datetime', 'field_date_format': '%d%m%Y'},
                '70': {'field_name': 'w1002', 'field_type': 'FIXED', 'field_length': 1002},
                '127': {'field_name': 'long60', 'field_type': 'FIXED', 'field_length': 60,
                        'field_python_type': 'long'},
            }
        elif name == 'PKGS':
            from cardutil.config import config
            _CFG[name] = {k: config['bit_config'][k] for k in sorted(config['bit_config'])}
        else:
            raise ValueError(name)
    return _CFG[name]


def lib_cfg(case_or_name, hex_flag=False):
    """what is handed to the library as iso_config: generated configurations explicitly; the packaged one through
    the library's own default path (iso_config=None) for binary-bitmap cases and as the live module object for
    hex-bitmap cases, so that both entry paths are exercised"""
    name = case_or_name['cfg'] if isinstance(case_or_name, dict) else case_or_name
    hx = case_or_name['hex'] if isinstance(case_or_name, dict) else hex_flag
    if isinstance(case_or_name, dict) and case_or_name.get('via_default'):
        return None                              # the caller has installed this configuration as the package default
    if name == 'LIVE':
        return _LIVE['cfg']                      # the library gets the very same object every time
    if name == 'PKG':
        if not hx:
            return None
        from cardutil.config import config
        return config['bit_config']
    return get_cfg(name)


def bits_of(cfgname):
    return sorted(int(b) for b in get_cfg(cfgname) if 2 <= int(b) <= 127)


_ALPH = {}


def alphabets(enc):
    """-> (safe, full): printable ASCII characters the codec can carry; every single-byte character of the codec"""
    if enc not in _ALPH:
        full = iso_ref.codec_alphabet(enc)
        safe = [c for c in full if 32 <= ord(c) < 127]
        _ALPH[enc] = (safe, full)
    return _ALPH[enc]


def text(n, salt, alph):
    m = len(alph)
    return ''.join(alph[(i * 7 + salt) % m] for i in range(n))


def digits(n, salt):
    return ''.join('0123456789'[(i * 3 + salt) % 10] for i in range(n))


def bin_bytes(n, salt):
    return bytes((i * 7 + salt) % 256 for i in range(n))


ICC_TAGS = [b'\x9f\x26', b'\x82', b'\x9f\x02', b'\x5f\x2a', b'\x95', b'\x9a', b'\x9c', b'\x9f\x10', b'\x84',
            b'\x9f\x36', b'\x4f', b'\x9f\x37', b'\x5f\x34', b'\x8a', b'\x91', b'\x71', b'\x72', b'\x9f\x1a',
            b'\x9f\x33', b'\x50', b'\x57', b'\x5a', b'\x9f\x27', b'\x9f\x34', b'\x9f\x35', b'\x9f\x09', b'\x01',
            b'\xff', b'\x9f\x00', b'\x5f\xff']


def icc_of_length(total, salt):
    """a well-formed TLV list whose encoding is exactly `total` bytes (total >= 2), distinct tags"""
    tlvs = []
    left = total
    ti = 0
    while left > 0:
        tag = ICC_TAGS[(ti + salt) % len(ICC_TAGS)]
        ti += 1
        if ti > len(ICC_TAGS):
            raise ValueError('too many TLVs')
        head = len(tag) + 1
        if left < head:
            # not enough room for this tag shape: use a one-byte tag instead (needs 2)
            tag = [t for t in ICC_TAGS if len(t) == 1 and all(t != x[0] for x in tlvs)][0]
            head = 2
        vlen = min(255, left - head)
        if left - head - vlen == 1:   # never leave a single byte
            vlen -= 1
        if vlen < 0:
            raise ValueError('cannot build ICC of length %d' % total)
        tlvs.append((tag, bin_bytes(vlen, salt + ti * 31)))
        left -= head + vlen
    seen = set()
    for t, _ in tlvs:
        if t in seen:
            raise ValueError('duplicate tag')
        seen.add(t)
    return tlvs


def pds_raw_of_length(total, salt, alph, parts=1):
    """a well-formed carrier string of exactly `total` characters (total >= 7*parts), `parts` sub-elements"""
    out = ''
    left = total
    for i in range(parts):
        vlen = (left - 7 * (parts - i)) if i == parts - 1 else (left - 7 * (parts - i)) // 2
        out += '%04d%03d%s' % (1 + i * 37 + salt % 50, vlen, text(vlen, salt + i, alph))
        left = total - len(out)
    assert len(out) == total
    return out


DE43_TEXTS = [
    'BIG BOBS\\80 KERNDALE ST\\DANERLEY\\3103      VICAUS',
    'A\\B\\C\\1234567890XYZAUS',
    'NAME ONLY NO SEPARATORS',
    'X' * 99,
    'SHOP   \\1 HIGH ST   \\TOWN   \\AB1 2CD   ENGGBR',
    '\\\\\\',
]

NUM_VARIANTS = 5
DEC_VARIANTS = 12
# the last two are computed per year: 02:30 on the second Sunday of March (an hour that does not exist on a US-rule
# daylight-saving wall clock) and 01:30 on the first Sunday of November (an hour that exists twice) - the values are
# naive, so they must come back unchanged whatever zone the process runs in
DATE_DAYS = [(1, 1, 0, 0, 0), (2, 28, 12, 30, 59), (12, 31, 23, 59, 59), (2, 29, 6, 7, 8), ('gap', 0, 2, 30, 0),
             ('fold', 0, 1, 30, 0)]


def number_value(width, idx, salt):
    if idx == 0:
        return 0
    if idx == 1:
        return 1
    if idx == 2:
        return 10 ** (width - 1)
    if idx == 3:
        return 10 ** width - 1
    return int(digits(width, salt + 1).lstrip('0') or '7')


def decimal_value(width, idx):
    if idx == 0:
        return decimal.Decimal('0')
    if idx == 1:
        return decimal.Decimal('0.01')
    if idx == 2:
        return decimal.Decimal('9' * (width - 3) + '.99')
    if idx == 4:
        return decimal.Decimal('1E+3')              # prints in scientific notation with str()
    if idx == 5:
        return decimal.Decimal('2500').normalize()  # Decimal('2.5E+3')
    if idx == 6:
        return decimal.Decimal('0.000001')
    if idx == 7:
        return decimal.Decimal('7E+0')
    # values EQUAL to earlier ones but written differently (another scale): they must be emitted as written
    if idx == 8:
        return decimal.Decimal('12.50')
    if idx == 9:
        return decimal.Decimal('0.00')
    if idx == 10:
        return decimal.Decimal('1000')
    if idx == 11:
        return decimal.Decimal('12.500')
    return decimal.Decimal('12.5')


def date_value(year, dayidx, fmt):
    mo, d, h, mi, s = DATE_DAYS[dayidx]
    if mo in ('gap', 'fold'):
        mo2 = 3 if mo == 'gap' else 11
        first = datetime.date(year, mo2, 1)
        d = 1 + (6 - first.weekday()) % 7 + (7 if mo == 'gap' else 0)
        mo = mo2
    if (mo, d) == (2, 29) and not (year % 4 == 0 and (year % 100 != 0 or year % 400 == 0)):
        d = 28
    if '%H' not in fmt:
        h = mi = s = 0
    us = (year * 37 + dayidx * 100003 + 1) % 1000000 if '%f' in fmt else 0
    return datetime.datetime(year, mo, d, h, mi, s, us)


def build_value(bc, kind, param, enc, seed, bit):
    safe, full = alphabets(enc)
    salt = seed + bit
    if kind == 'T':
        return text(param, salt, safe)
    if kind == 'TF':
        return text(param, salt, full)
    if kind == 'TS':
        return text(param, salt, [c for c in safe if c != ' '])
    if kind == 'OVER':
        return text(param, salt, safe)
    if kind == 'OVERICC':
        # binary (ICC) data longer than the length prefix can count: well-formed TLVs, too many of them
        parts, left = [], param
        while left > 0:
            n = min(250, left)
            if left - n == 1:
                n -= 1
            parts.append(iso_ref.icc_build(icc_of_length(n, salt + left)))
            left -= n
        return b''.join(parts)
    if kind == 'UNENC':
        # text the codec cannot carry: a letter followed by a combining mark, the euro sign, a CJK character, an emoji
        bad = ['CAFE\u0301', 'A\u20acB', '\u4e2d\u6587', 'x\U0001f600', 'e\u0301', '\u0141\u00f3d\u017a'][param % 6]
        return bad
    if kind == 'TP':
        # content patterns that look like padding, absence, numbers or structure: param = [length, pattern index]
        n, pi = param
        body = text(n, salt, [c for c in safe if c not in ' 0'])
        pats = [' ' * n, '0' * n, (' ' + body)[:n], (body[:max(0, n - 1)] + ' ')[:n] if n > 1 else ' ', '@' * n,
                ('016' + body)[:n], ('None' + body)[:n], ('0' + body)[:n], (body[:max(0, n - 2)] + '00')[:n],
                ('\\' * n)[:n]]
        if pi >= len(pats):
            # sentinel-like words and string literals of the library's own source as the WHOLE value (variable
            # length elements) or as its beginning (fixed width)
            from vf import literals
            texts = [t for t in literals.cell_texts(24) if all(c in safe for c in t)]
            t = texts[(pi - len(pats)) % len(texts)]
            return t if n == 0 else (t + body)[:n]
        return pats[pi % len(pats)]
    if kind == 'N':
        return number_value(bc['field_length'], param, salt)
    if kind == 'VN':          # number in a variable-length field: param = number of digits (or 0 for the value zero)
        return 0 if param == 0 else int('9' + digits(param - 1, salt)) if param > 1 else 1 + salt % 9
    if kind == 'DEC':
        return decimal_value(bc['field_length'], param)
    if kind == 'NS':
        # a number handed over as text (what a CSV cell or a JSON string gives): param = [number variant, form]
        # form 0: plain numeral; 1: zero-filled to the width; 2: more leading zeros than the width has room for
        # (the NUMBER still fits the element)
        n = number_value(bc['field_length'], param[0], salt)
        w = bc['field_length']
        return [str(n), str(n).zfill(w), '00' + str(n).zfill(w)][param[1]]
    if kind == 'VNS':
        v = build_value(bc, 'VN', param, enc, seed, bit)
        return str(v)
    if kind == 'DECS':
        return format(decimal_value(bc['field_length'], param), 'f')
    if kind == 'D':
        return date_value(param[0], param[1], bc.get('field_date_format', '%y%m%d'))
    if kind == 'PAN':
        return digits(param, salt)
    if kind == 'ICC':
        return iso_ref.icc_build(icc_of_length(param, salt))
    if kind == 'PDSRAW':
        if isinstance(param, list):
            return pds_raw_of_length(param[0], salt, safe, parts=param[1])
        return pds_raw_of_length(param, salt, safe)
    if kind == 'DE43':
        return DE43_TEXTS[param]
    raise ValueError(kind)


def build_message(case):
    """-> (msg dict, expected dict of original keys after a round trip, cfg)"""
    cfg = get_cfg(case['cfg'])
    enc, seed = ('latin_1' if case['enc'] == 'default' else case['enc']), case.get('seed', 0)
    msg = {'MTI': case.get('mti', '1240')}
    exp = {'MTI': msg['MTI']}
    for bit, kind, param in case['f']:
        bc = cfg[str(bit)]
        v = build_value(bc, kind, param, enc, seed, bit)
        msg['DE%d' % bit] = v
        exp['DE%d' % bit] = expected_value(bc, v)
    if case.get('pds'):
        safe, full = alphabets(enc)
        # 'full': every character the codec can carry in one byte (accented letters, signs, controls) - characters
        # whose UTF-8 form is longer than one byte are among them
        hi = [c for c in full if ord(c) > 160] or full
        for tag, ln in case['pds']:
            coding = case.get('pds_coding')
            val = digits(ln, seed + tag) if coding == 'digits' else text(ln, seed + tag, hi) if coding == 'full' \
                else text(ln, seed + tag, safe)
            msg['PDS%04d' % tag] = val
            exp['PDS%04d' % tag] = val
    return msg, exp, cfg


def expected_value(bc, v):
    proc = bc.get('field_processor')
    t = bc.get('field_python_type')
    if isinstance(v, str) and t in ('int', 'long'):
        return int(v)
    if isinstance(v, str) and t == 'decimal':
        return decimal.Decimal(v)
    if proc == 'PAN':
        return v[:6] + '*' * (len(v) - 10) + v[-4:]
    if proc == 'PAN-PREFIX':
        return v[:9]
    if iso_ref.prefix_len(bc) == 0 and isinstance(v, str) and not bc.get('field_python_type'):
        return v.ljust(bc['field_length'], ' ')
    return v


def allowed_extra(key):
    """the documented derived keys"""
    return key.startswith('PDS') or key.startswith('TAG') or key == 'ICC_DATA' or key.startswith('DE43_')


def field_class(bc):
    """which variant family applies to a configured bit"""
    proc = bc.get('field_processor')
    pl = iso_ref.prefix_len(bc)
    t = bc.get('field_python_type')
    if proc == 'ICC':
        return 'icc'
    if proc == 'PDS':
        return 'pds'
    if proc in ('PAN', 'PAN-PREFIX'):
        return 'pan' if proc == 'PAN' else 'panprefix'
    if pl and t in ('int', 'long'):
        return 'varnum'
    if pl:
        return 'var'
    if t in ('int', 'long'):
        return 'num'
    if t == 'decimal':
        return 'dec'
    if t == 'datetime':
        return 'date'
    return 'fixed'


def single_variants(bc, tier='quick'):
    """every admissible variant [kind, param] of one field, simplest first"""
    cls = field_class(bc)
    pl = iso_ref.prefix_len(bc)
    top = 10 ** pl - 1 if pl else 0
    out = []
    if cls == 'var':
        out += [['T', n] for n in range(1, top + 1)]
        out += [['TF', n] for n in (1, 2, 50, top)]
        out += [['TP', [n, pi]] for n in (1, 2, 7, top) for pi in range(10)]
        from vf import literals
        out += [['TP', [0, 10 + i]] for i in range(len(literals.cell_texts(24))) if top >= 24]
        if bc.get('field_processor') == 'DE43':
            out += [['DE43', i] for i in range(len(DE43_TEXTS))]
    elif cls == 'pan':
        out += [['PAN', n] for n in range(10, top + 1)]
    elif cls == 'panprefix':
        out += [['PAN', n] for n in range(1, top + 1)]
    elif cls == 'icc':
        out += [['ICC', n] for n in range(2, top + 1)]
    elif cls == 'pds':
        out += [['PDSRAW', n] for n in range(7, top + 1)]
        out += [['PDSRAW', [n, 3]] for n in (21, 22, 500, top)]
    elif cls == 'fixed':
        w = bc['field_length']
        out += [['T', w], ['TF', w]]
        out += [['TP', [w, pi]] for pi in range(10)]
    elif cls == 'num':
        out += [['N', i] for i in range(NUM_VARIANTS)]
        out += [['NS', [i, form]] for i in range(NUM_VARIANTS) for form in range(3)]
    elif cls == 'varnum':
        out += [['VN', n] for n in range(0, top + 1)]
        out += [['VNS', n] for n in (0, 1, 2, 9, 18, 19, 20, top)]
    elif cls == 'dec':
        out += [['DEC', i] for i in range(DEC_VARIANTS)]
        out += [['DECS', i] for i in range(DEC_VARIANTS)]
    elif cls == 'date':
        fmt = bc.get('field_date_format', '%y%m%d')
        for y in range(1969, 2069):
            for di in range(len(DATE_DAYS)):
                if '%H' not in fmt and di in (1, 2, 4, 5) and y % 10:
                    continue
                out.append(['D', [y, di]])
    return out


def boundary_variants(bc):
    """{shortest, longest} for pairs"""
    cls = field_class(bc)
    pl = iso_ref.prefix_len(bc)
    top = 10 ** pl - 1 if pl else 0
    if cls == 'var':
        return [['T', 1], ['T', top]]
    if cls == 'pan':
        return [['PAN', 10], ['PAN', top]]
    if cls == 'panprefix':
        return [['PAN', 1], ['PAN', top]]
    if cls == 'icc':
        return [['ICC', 2], ['ICC', top]]
    if cls == 'pds':
        return [['PDSRAW', 7], ['PDSRAW', top]]
    if cls == 'fixed':
        return [['T', bc['field_length']], ['TF', bc['field_length']]]
    if cls == 'num':
        return [['N', 0], ['N', 3]]
    if cls == 'varnum':
        return [['VN', 0], ['VN', top]]
    if cls == 'dec':
        return [['DEC', 0], ['DEC', 2]]
    if cls == 'date':
        return [['D', [1969, 0]], ['D', [2068, 2]]]
    raise ValueError(cls)


def default_variant(bc, small=True):
    """a medium variant used in the long-message families"""
    cls = field_class(bc)
    if cls == 'var':
        return ['T', 11 if small else 37]
    if cls == 'pan':
        return ['PAN', 16]
    if cls == 'panprefix':
        return ['PAN', 19]
    if cls == 'icc':
        return ['ICC', 40]
    if cls == 'pds':
        return ['PDSRAW', [60, 3]]
    if cls == 'fixed':
        return ['T', bc['field_length']]
    if cls == 'num':
        return ['N', 4]
    if cls == 'varnum':
        return ['VN', 9]
    if cls == 'dec':
        return ['DEC', 3]
    if cls == 'date':
        return ['D', [2015, 1]]
    raise ValueError(cls)
