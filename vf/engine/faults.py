"""
E4 - exhaustive fault enumeration under a CPU-time watchdog.

Given base bytes and a structure map (list of (name, start, end)), enumerates
  * every truncation offset,
  * every single-byte substitution at the selected positions x the selected values,
  * one-byte insert / delete at every offset,
  * every pair of structural positions x an alphabet (two deviations).
Each case is run under signal.setitimer(ITIMER_VIRTUAL): CPU time, so machine load cannot fake a hang; the
handler raises inside the library, which turns non-termination into a recorded outcome.
"""
import signal


class Hang(BaseException):
    """raised by the watchdog inside the code under test (BaseException: no `except Exception` can swallow it)"""


def _on_timer(signum, frame):
    raise Hang()


_installed = False


def install():
    global _installed
    if not _installed:
        signal.signal(signal.SIGVTALRM, _on_timer)
        _installed = True


def guarded(fn, cpu_seconds=5.0):
    """run fn() under the CPU watchdog; -> ('ok', value) | ('hang', None) | ('exc', exception)"""
    import threading
    if threading.current_thread() is not threading.main_thread():
        # signals reach the main thread only: on the 'thread' axis the per-task limit of the pool is the watchdog
        try:
            return 'ok', fn()
        except Exception as ex:
            return 'exc', ex
    install()
    signal.setitimer(signal.ITIMER_VIRTUAL, cpu_seconds)
    try:
        try:
            return 'ok', fn()
        finally:
            signal.setitimer(signal.ITIMER_VIRTUAL, 0)
    except Hang:
        return 'hang', None
    except Exception as ex:
        return 'exc', ex


def structural_positions(struct, names=None):
    """byte offsets of every structure entry whose name ends with one of `names` (default: all but *.data/value)"""
    pos = []
    for name, s, e in struct:
        leaf = name.split('.')[-1]
        if names is None:
            if leaf in ('data', 'value'):
                continue
        elif leaf not in names:
            continue
        pos.extend(range(s, e))
    return sorted(set(pos))


def truncations(data):
    for n in range(len(data) + 1):
        yield ('trunc', n), data[:n]


def substitutions(data, positions, values=range(256)):
    for p in positions:
        orig = data[p]
        for v in values:
            if v != orig:
                yield ('sub', p, v), data[:p] + bytes([v]) + data[p + 1:]


def insert_delete(data, values=(0x30, 0x00, 0xff, 0x2d)):
    for p in range(len(data) + 1):
        for v in values:
            yield ('ins', p, v), data[:p] + bytes([v]) + data[p:]
    for p in range(len(data)):
        yield ('del', p), data[:p] + data[p + 1:]


def pairs(data, positions, alphabet):
    positions = list(positions)
    for i, p in enumerate(positions):
        for q in positions[i + 1:]:
            for a in alphabet:
                for b in alphabet:
                    if a == data[p] and b == data[q]:
                        continue
                    m = bytearray(data)
                    m[p] = a
                    m[q] = b
                    yield ('pair', p, a, q, b), bytes(m)


def apply(data, mut):
    """re-create one mutation from its descriptor (for replay)"""
    kind = mut[0]
    if kind == 'none':
        return data
    if kind == 'trunc':
        return data[:mut[1]]
    if kind == 'sub':
        return data[:mut[1]] + bytes([mut[2]]) + data[mut[1] + 1:]
    if kind == 'ins':
        return data[:mut[1]] + bytes([mut[2]]) + data[mut[1]:]
    if kind == 'del':
        return data[:mut[1]] + data[mut[1] + 1:]
    if kind == 'pair':
        m = bytearray(data)
        m[mut[1]] = mut[2]
        m[mut[3]] = mut[4]
        return bytes(m)
    if kind == 'field':
        return data[:mut[1]] + bytes(mut[2]) + data[mut[1] + len(mut[2]):]
    if kind == 'ext':
        return data + bytes(mut[1])
    if kind == 'splice':
        return data[:mut[1]] + bytes(mut[3]) + data[mut[2]:]
    raise ValueError(kind)
