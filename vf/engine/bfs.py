"""
E1 - explicit-state breadth-first search whose transition function is the real code.

A state is identified by a canonical key; it is *represented* by up to two operation histories that reach it.
The concrete object is never copied: `expand` rebuilds it by replaying a history on a fresh real object.
Search is level-synchronous so a level can be expanded by 16 forked workers with a static partition; the
successor sets are merged in task order, so the exploration (and the representative histories chosen) is
reproducible.
"""
from vf import core


def explore(initial, expand, max_levels=50, chunks_per_worker=4, on_level=None, max_states=None):
    """
    initial : list of (key, history)
    expand  : fn(batch) -> (Acc, {succ_key: [history, ...]}); batch = list of (key, [histories])
              every transition it executes must be counted in Acc.transitions
    returns : (Acc, seen) with Acc.states = number of distinct keys expanded
    """
    acc = core.Acc()
    seen = {}
    for k, h in initial:
        seen.setdefault(k, [])
        if h not in seen[k] and len(seen[k]) < 2:
            seen[k].append(h)
    frontier = sorted(seen.items())
    level = 0
    levels = []
    while frontier:
        if level >= max_levels:
            raise core.Broken('bfs: level cap %d hit with %d frontier states' % (max_levels, len(frontier)))
        batches = core.spread(frontier, core.NWORKERS * chunks_per_worker)
        new = {}
        for a, succ in core.pmap(expand, batches):
            acc.merge(a)
            for k in sorted(succ):
                if k in seen:
                    continue
                lst = new.setdefault(k, [])
                for h in succ[k]:
                    if h not in lst and len(lst) < 2:
                        lst.append(h)
        levels.append(len(frontier))
        if max_states is not None and len(seen) + len(new) > max_states:
            # stop gracefully: report the cap instead of claiming closure
            acc.counters['bfs_cap_hit'] = 'state cap %d reached at level %d; %d states were not expanded' % (
                max_states, level, len(new))
            new = {}
        for k, hs in new.items():
            seen[k] = hs
        frontier = sorted(new.items())
        level += 1
        if on_level:
            on_level(level, len(seen), len(frontier))
    acc.states = len(seen)
    acc.counters['bfs_levels'] = level
    acc.counters['bfs_level_sizes'] = levels
    return acc, seen
