"""
E3 - schedule exploration.

(a) operation-level: all merges (or preemption-bounded merges) of k instance scripts; every merge is executed on
    fresh real objects.
(b) line-level: two real threads under a baton scheduler.  sys.settrace 'line' events inside the library's own files
    are the scheduling points; exactly one thread runs at a time (per-thread semaphore baton).  A schedule is the list
    of global point indexes at which the running thread is preempted; every other point continues the running
    thread.  The explorer enumerates every placement of <= bound preemptions (CHESS-style iterative context
    bounding); executions always run to completion.
"""
import os
import sys
import threading


# ---- (a) operation level ---------------------------------------------------------------------------------

def merges(lengths, max_switches=None):
    """all interleavings of scripts with the given lengths, as tuples of instance ids.  With max_switches, only
    those in which the running instance is left before it has finished at most max_switches times."""
    total = sum(lengths)

    def rec(done, seq, cur, switches):
        if len(seq) == total:
            yield tuple(seq)
            return
        for i in range(len(lengths)):
            if done[i] >= lengths[i]:
                continue
            sw = switches
            if cur is not None and i != cur and done[cur] < lengths[cur]:
                sw += 1
                if max_switches is not None and sw > max_switches:
                    continue
            done[i] += 1
            seq.append(i)
            yield from rec(done, seq, i, sw)
            seq.pop()
            done[i] -= 1
    yield from rec([0] * len(lengths), [], None, 0)


# ---- (b) line level ---------------------------------------------------------------------------------------

class Deadlock(Exception):
    pass


class Baton(object):
    """runs two callables as real threads, one at a time, switching only at the listed scheduling points"""

    def __init__(self, bodies, preempt_at, roots, first=0, horizon=2000000):
        self.bodies = bodies
        self.preempt_at = set(preempt_at)
        self.roots = tuple(os.path.abspath(r) + os.sep for r in roots)
        self.exclude = os.sep + 'vendor' + os.sep
        self.sems = [threading.Semaphore(0) for _ in bodies]
        self.done = [False] * len(bodies)
        self.results = [None] * len(bodies)
        self.points = 0
        self.owner_at = []           # which thread executed point i
        self.current = first
        self.first = first
        self.horizon = horizon
        self.error = None
        self._fn_cache = {}

    def _interesting(self, filename):
        r = self._fn_cache.get(filename)
        if r is None:
            r = filename.startswith(self.roots) and self.exclude not in filename
            self._fn_cache[filename] = r
        return r

    def _global_trace(self, frame, event, arg):
        if self._interesting(frame.f_code.co_filename):
            return self._local_trace
        return None

    def _local_trace(self, frame, event, arg):
        if event == 'line':
            self._point()
        return self._local_trace

    def _point(self):
        tid = self._tid()
        idx = self.points
        self.points += 1
        self.owner_at.append(tid)
        if self.points > self.horizon:
            raise Deadlock('horizon of %d scheduling points exceeded' % self.horizon)
        if idx in self.preempt_at:
            other = 1 - tid
            if not self.done[other]:
                self.current = other
                self.sems[other].release()
                self.sems[tid].acquire()

    def _tid(self):
        return threading.current_thread().vf_tid

    def _run(self, tid):
        threading.current_thread().vf_tid = tid
        self.sems[tid].acquire()
        sys.settrace(self._global_trace)
        try:
            self.results[tid] = ('ok', self.bodies[tid]())
        except BaseException as ex:      # noqa
            self.results[tid] = ('exc', repr(ex))
        finally:
            sys.settrace(None)
            self.done[tid] = True
            other = 1 - tid
            if not self.done[other]:
                self.current = other
                self.sems[other].release()
            else:
                self.finished.set()

    def run(self):
        self.finished = threading.Event()
        ths = [threading.Thread(target=self._run, args=(i,), daemon=True) for i in range(2)]
        for t in ths:
            t.start()
        self.sems[self.first].release()
        if not self.finished.wait(timeout=30):
            raise Deadlock('threads did not finish within 30 s (points so far %d)' % self.points)
        for t in ths:
            t.join(timeout=5)
        return self.results


def count_points(make_bodies, roots, first):
    """one run without preemption -> number of scheduling points executed by the first thread"""
    bodies, ctx = make_bodies()
    b = Baton(bodies, [], roots, first=first)
    b.run()
    return sum(1 for o in b.owner_at if o == first), b.points


def explore_slice(make_bodies, roots, bound, observe, first, indexes, second_stride=1):
    """
    For each index i in `indexes` (a scheduling point of the thread that runs first): the execution with one
    preemption at i, and (bound >= 2) every execution with a second preemption at a point of the other thread's
    run that follows.  make_bodies() builds fresh bodies/context for every execution.
    Yields (schedule descriptor, observation, total points).
    """
    for i in indexes:
        bodies, ctx = make_bodies()
        b1 = Baton(bodies, [i], roots, first=first)
        res = b1.run()
        yield {'first': first, 'preempt': [i]}, observe(res, ctx), b1.points
        if bound >= 2:
            run_len = 0
            for j in range(i + 1, len(b1.owner_at)):
                if b1.owner_at[j] != first:
                    run_len += 1
                else:
                    break
            for j in range(i + 1 + (i % second_stride), i + 1 + run_len, second_stride):
                bodies, ctx = make_bodies()
                b2 = Baton(bodies, [i, j], roots, first=first)
                res = b2.run()
                yield {'first': first, 'preempt': [i, j]}, observe(res, ctx), b2.points


def run_schedule(make_bodies, roots, observe, sched):
    bodies, ctx = make_bodies()
    b = Baton(bodies, sched['preempt'], roots, first=sched['first'])
    res = b.run()
    return observe(res, ctx), b.points
