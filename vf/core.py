"""
Shared plumbing: accumulators, static 16-way fork pool, evidence / replay writers, known-findings handling.

Every check module exposes
    PROPERTY, LEVEL
    describe(tier, seed) -> dict(rule=..., assumptions=[...], bounds={...}, exhaustive=bool)
    tasks(tier, seed)    -> list of JSON-able batch descriptors (static partition; order is fixed)
    run_task(task)       -> Acc            (enumerates every case of the batch, executes the real code)
    replay_case(case)    -> Acc            (re-executes exactly one case, no explorer)
Model-checking checks additionally drive vf.engine.bfs themselves from run(ctx).
"""
import hashlib
import json
import logging
import multiprocessing
import os
import sys
import time
import traceback

VERIF = os.path.dirname(os.path.dirname(os.path.abspath(__file__)))
REPO = os.environ.get('VERIF_REPO', '/repo')
NWORKERS = int(os.environ.get('VERIF_WORKERS', '16'))
MAX_VIOL_PER_SIG = 3
MAX_SAMPLES = 12


class Broken(Exception):
    """The checker itself is wrong (self-check failed, nondeterminism): exit 2, never a VIOLATION."""


class TaskTimeout(BaseException):
    """raised inside a task by the CPU-time watchdog (ITIMER_PROF): the code under test does not terminate (or is
    orders of magnitude slower than on the unchanged tree)"""


class TaskHang(Exception):
    """a task outside safe_task ran into the watchdog; carries a description for the verdict"""


def task_cpu_limit(tier):
    try:
        return float(os.environ.get('VERIF_TASK_CPU_LIMIT', ''))
    except ValueError:
        return 150.0 if tier == 'quick' else 2400.0


_TIER = {'tier': 'quick'}
_POISONED = {'v': False}


def _on_prof(signum, frame):
    raise TaskTimeout()


# environment axis of this process ('' = the main pass): 'opt' = interpreter started with -O (assert statements
# removed, __debug__ False), 'debuglog' = the library's loggers enabled at DEBUG level (what --debug / a DEBUG root
# logger gives a user). The runner re-runs a slice of every check in a child process per axis.
AXIS = os.environ.get('VERIF_AXIS', '')
AXES = ('opt', 'debuglog', 'tz', 'thread')
# 'tz': the process runs in a time zone with daylight saving (POSIX rule, no tz database needed): nothing in the
# library's contract depends on the local zone. 'thread': every task runs in a thread other than the main thread
# (the one that imported the library), as a server or a worker pool would call it.
AXIS_ENV = {'tz': {'TZ': 'EST5EDT,M3.2.0,M11.1.0'}}
AXIS_TEXT = {'opt': 'the interpreter runs with -O (assert statements removed)',
             'debuglog': "the library's loggers are enabled at DEBUG level",
             'tz': 'the process time zone has daylight saving (TZ=EST5EDT,M3.2.0,M11.1.0)',
             'thread': 'the calls are made from a thread other than the one that imported the library'}
# relative cost: the first two axes run every 4th (thorough: 2nd) task, the later two every 8th (thorough: 4th)
AXIS_STRIDE_FACTOR = {'opt': 1, 'debuglog': 1, 'tz': 2, 'thread': 2, 'nodateutil': 1}
# 'nodateutil' (only for checks that name it in EXTRA_AXES): python-dateutil is an optional extra of the package; a
# plain installation does not have it and the library then parses date text with datetime.fromisoformat
AXIS_TEXT['nodateutil'] = 'python-dateutil (an optional extra) is not installed'
if AXIS == 'nodateutil':
    sys.modules['dateutil'] = None
    sys.modules['dateutil.parser'] = None


def call_on_axis(fn, arg):
    """fn(arg) - in a fresh non-main thread on the 'thread' axis (exceptions are re-raised here; a thread that
    does not come back within the task CPU limit is abandoned and reported as non-termination)"""
    if AXIS != 'thread':
        return fn(arg)
    import threading
    box = {}

    def body():
        try:
            box['v'] = fn(arg)
        except BaseException as ex:      # noqa
            box['e'] = ex
    t = threading.Thread(target=body, daemon=True)
    t.start()
    t.join(task_cpu_limit(_TIER['tier']) * 2)
    if t.is_alive():
        raise TaskTimeout()
    if 'e' in box:
        raise box['e']
    return box['v']
# slice of the task list a child process runs: (stride, offset); (1, 0) = everything
SELECT = (1, 0)


class _Sink(logging.Handler):
    """formats every record (so a log call whose arguments do not format is noticed by logging) and drops it"""

    def emit(self, record):
        record.getMessage()


_SINK = _Sink()


def quiet_library():
    """The library formats hexdumps eagerly inside LOGGER.debug; drop everything below CRITICAL - except on the
    'debuglog' axis, where every library logger is enabled at DEBUG and records go to a sink."""
    if AXIS == 'debuglog':
        logging.disable(logging.NOTSET)
        lg = logging.getLogger('cardutil')
        lg.setLevel(logging.DEBUG)
        if _SINK not in lg.handlers:
            lg.addHandler(_SINK)
        lg.propagate = False
        return
    logging.disable(logging.CRITICAL)


def jsonable(x):
    if isinstance(x, (bytes, bytearray)):
        b = bytes(x)
        if len(b) > 160:
            return {'hex_head': b[:96].hex(), 'hex_tail': b[-32:].hex(), 'len': len(b)}
        return {'hex': b.hex()}
    if isinstance(x, dict):
        return {str(k): jsonable(v) for k, v in x.items()}
    if isinstance(x, (list, tuple)):
        return [jsonable(v) for v in x]
    if isinstance(x, (set, frozenset)):
        return sorted(jsonable(v) for v in x)
    if isinstance(x, (str, int, float, bool)) or x is None:
        return x
    return repr(x)


def short(x, n=300):
    s = x if isinstance(x, str) else repr(x)
    return s if len(s) <= n else s[:n] + '...(%d chars)' % len(s)


class Acc(object):
    """Per-worker accumulator; merged in the parent in task order (so results are reproducible)."""

    def __init__(self):
        self.evaluations = 0
        self.keys = set()          # hashes of distinct non-trivial cases
        self.trivial = 0
        self.outcomes = {}         # outcome label -> count
        self.violations = {}       # sig -> [count, [details...]]
        self.samples = []
        self.counters = {}
        self.states = 0
        self.transitions = 0
        self.bag = {}              # name -> list of values a check wants to compare ACROSS tasks / worker processes

    def case(self, key, nontrivial=True, outcome=None):
        self.evaluations += 1
        if nontrivial:
            self.keys.add(hash(key))
        else:
            self.trivial += 1
        if outcome is not None:
            self.outcomes[outcome] = self.outcomes.get(outcome, 0) + 1

    def outcome(self, outcome):
        self.outcomes[outcome] = self.outcomes.get(outcome, 0) + 1

    def count(self, name, n=1):
        self.counters[name] = self.counters.get(name, 0) + n

    def sample(self, s):
        if len(self.samples) < MAX_SAMPLES:
            self.samples.append(jsonable(s))

    def viol(self, sig, case, observed=None, expected=None, note=None):
        """sig: stable signature (check part + call site + input class); case: JSON-able replayable case."""
        ent = self.violations.setdefault(sig, [0, []])
        ent[0] += 1
        if len(ent[1]) < MAX_VIOL_PER_SIG:
            ent[1].append({'case': jsonable(case), 'observed': short(observed), 'expected': short(expected),
                           'note': note})

    def merge(self, other):
        self.evaluations += other.evaluations
        self.keys |= other.keys
        self.trivial += other.trivial
        self.states += other.states
        self.transitions += other.transitions
        for k, v in other.outcomes.items():
            self.outcomes[k] = self.outcomes.get(k, 0) + v
        for k, v in other.counters.items():
            self.counters[k] = self.counters.get(k, 0) + v
        for sig, (n, det) in other.violations.items():
            ent = self.violations.setdefault(sig, [0, []])
            ent[0] += n
            for d in det:
                if len(ent[1]) < MAX_VIOL_PER_SIG:
                    ent[1].append(d)
        for k, v in getattr(other, 'bag', {}).items():
            self.bag.setdefault(k, []).extend(v)
        for s in other.samples[:3]:
            if len(self.samples) < 600:
                self.samples.append(s)
        return self


# ---------------------------------------------------------------------------------------------------
# static fork pool

_BEACON = {'conn': None}


def note_current(info):
    """a task tells the parent which case it is about to run (used before calls that might never return): if the
    worker has to be killed, the report names the case"""
    c = _BEACON['conn']
    if c is not None:
        try:
            c.send(('at', info))
        except Exception:
            pass


def _worker(fn, tasks, idx, n, conn):
    import signal
    _BEACON['conn'] = conn
    try:
        quiet_library()
        signal.signal(signal.SIGPROF, _on_prof)
        out = []
        for i in range(idx, len(tasks), n):
            # CPU-time watchdog around every task: a library loop that never ends becomes a verdict, not a stuck check
            signal.setitimer(signal.ITIMER_PROF, task_cpu_limit(_TIER['tier']), 5.0)   # re-fires if swallowed
            conn.send(('begin', i))      # the parent keeps a wall clock per task (see pmap)
            try:
                out.append((i, call_on_axis(fn, tasks[i])))
            finally:
                signal.setitimer(signal.ITIMER_PROF, 0)
        conn.send(('ok', out))
    except TaskTimeout:
        conn.send(('timeout', 'task %d of %d did not finish within %.0f s of CPU time' % (
            i, len(tasks), task_cpu_limit(_TIER['tier']))))
    except BaseException:
        conn.send(('err', traceback.format_exc()))
    finally:
        conn.close()


def pmap(fn, tasks, nworkers=None):
    """Run fn(task) for every task; task i goes to worker i mod n (static partition). Results in task order."""
    tasks = list(tasks)
    n = min(nworkers or NWORKERS, max(1, len(tasks)))
    if n <= 1 or os.environ.get('VERIF_SERIAL'):
        quiet_library()
        return [call_on_axis(fn, t) for t in tasks]
    ctx = multiprocessing.get_context('fork')
    procs = []
    for idx in range(n):
        parent, child = ctx.Pipe(duplex=False)
        p = ctx.Process(target=_worker, args=(fn, tasks, idx, n, child))
        p.start()
        child.close()
        procs.append((p, parent))
    results = [None] * len(tasks)
    err = None
    hang = None
    # The CPU-time signal cannot interrupt a single call that never returns to the interpreter (one C-level operation
    # that runs for hours): the parent therefore also keeps a wall clock per task and kills a worker whose task
    # exceeds it - the task is then reported as non-terminating.
    from multiprocessing.connection import wait as _wait
    wall_limit = float(os.environ.get('VERIF_TASK_WALL_LIMIT', '') or 4 * task_cpu_limit(_TIER['tier']))
    live = {conn: p for p, conn in procs}
    started = {}
    while live:
        for conn in _wait(list(live), timeout=2.0):
            p = live[conn]
            try:
                kind, payload = conn.recv()
            except EOFError:
                kind, payload = 'err', 'worker died without a result (pid %s)' % p.pid
            if kind == 'begin':
                started[conn] = (payload, time.time(), None)
                continue
            if kind == 'at':
                if conn in started:
                    started[conn] = (started[conn][0], started[conn][1], payload)
                continue
            if kind == 'ok':
                for i, r in payload:
                    results[i] = r
            elif kind == 'timeout':
                hang = payload
            else:
                err = payload
            p.join()
            del live[conn]
            started.pop(conn, None)
        now = time.time()
        for conn, (i, t0, at) in list(started.items()):
            if conn in live and now - t0 > wall_limit:
                p = live.pop(conn)
                started.pop(conn, None)
                p.kill()
                p.join()
                hang = 'task %d of %d did not come back within %.0f s (one call that never returns to the interpreter ' \
                       '- the worker was killed)%s' % (i, len(tasks), wall_limit,
                                                         '; last case announced: %s' % json.dumps(at)[:600] if at else '')
    if err:
        raise Broken('worker failed:\n' + err)
    if hang:
        raise TaskHang(hang)
    return results


def task_ref(idx, tier, seed):
    ref = {'task_index': idx, 'tier': tier, 'seed': seed}
    if SELECT != (1, 0):
        ref['select'] = list(SELECT)
    return ref


def selected(ntasks, select=None):
    stride, off = select or SELECT
    return [i for i in range(ntasks) if i % stride == off % stride]


def safe_task(fn, prop, tier, seed):
    """wrap run_task(task): an unexpected exception while a task drives the library (never seen on the unchanged
    tree) is recorded as a violation of that task instead of breaking the whole check. Broken still propagates."""
    def run(indexed):
        idx, task = indexed
        if _POISONED['v']:
            acc = Acc()
            acc.count('tasks_skipped_after_a_timeout_in_this_worker')
            return acc
        try:
            acc = fn(task)
            for sig, (n, dets) in acc.violations.items():
                for d in dets:
                    d['_task'] = task_ref(idx, tier, seed)
            return acc
        except Broken:
            raise
        except TaskTimeout:
            _POISONED['v'] = True       # runaway threads / state may survive: do not trust this worker any more
            acc = Acc()
            acc.viol('%s.no_termination' % prop.lower(), task_ref(idx, tier, seed),
                     'task did not finish within %.0f s of CPU time' % task_cpu_limit(tier),
                     'the task completes (a few seconds on the unchanged tree)',
                     'the code under test loops (or became orders of magnitude slower)')
            return acc
        except Exception as ex:
            acc = Acc()
            tb = traceback.format_exc().strip().splitlines()
            site = [l.strip() for l in tb if l.strip().startswith('File')][-1:] or ['?']
            acc.viol('%s.unexpected_exception.%s' % (prop.lower(), type(ex).__name__),
                     task_ref(idx, tier, seed), repr(ex),
                     'the task completes (as it does on the unchanged tree)', site[0][:200])
            return acc
    return run


def chunks(items, nchunks):
    """contiguous split into <= nchunks chunks: neighbouring cases stay in the same task (and so in the same
    process, in enumeration order) - what a fault that depends on earlier calls needs in order to show and to replay"""
    items = list(items)
    nchunks = max(1, min(nchunks, len(items)))
    size = -(-len(items) // nchunks)
    return [items[i:i + size] for i in range(0, len(items), size)]


def spread(items, nchunks):
    """Deterministic round-robin split of a list into <= nchunks non-empty chunks."""
    items = list(items)
    nchunks = max(1, min(nchunks, len(items)))
    return [items[i::nchunks] for i in range(nchunks)]


# ---------------------------------------------------------------------------------------------------
# known findings

def load_known(prop):
    """-> (set of finding signatures, list of text) for this property; 'fixed:' lines suppress nothing."""
    path = os.path.join(VERIF, 'KNOWN_FINDINGS.txt')
    sigs = {}
    if os.path.exists(path):
        for line in open(path):
            line = line.strip()
            if not line.startswith('finding:'):
                continue
            parts = line.split()
            kv = dict(p.split('=', 1) for p in parts[1:3] if '=' in p)
            if kv.get('property') == prop and 'sig' in kv:
                sigs[kv['sig']] = ' '.join(parts[3:])
    return sigs


# ---------------------------------------------------------------------------------------------------
# finishing a run

def pick(seq, n):
    """n evenly spaced elements (first and last included) so the written samples span the enumeration"""
    seq = list(seq)
    if len(seq) <= n:
        return seq
    return [seq[(i * (len(seq) - 1)) // (n - 1)] for i in range(n)]


def finish(mod, tier, seed, acc, desc, t0, replay_fn=None, extra_cov=None, sequence_fn=None):
    """Write evidence, replays, print verdict lines; return process exit code."""
    prop = mod.PROPERTY
    known = load_known(prop)
    os.makedirs(os.path.join(VERIF, 'evidence'), exist_ok=True)
    os.makedirs(os.path.join(VERIF, 'replays'), exist_ok=True)
    new_viol = 0
    lines = []
    unreproduced = []
    for sig in sorted(acc.violations):
        n, details = acc.violations[sig]
        if sig in known:
            lines.append('KNOWN-FINDING: property=%s sig=%s %s (%d cases)' % (prop, sig, known[sig], n))
            continue
        first = details[0]
        # repeatability: a failing case must fail again when re-executed alone
        if replay_fn is not None and '.no_termination' not in sig:
            again = replay_fn(first['case'])
            if sig not in again.violations:
                # not reproducible alone: it may depend on what the library did for EARLIER cases of the same task
                # (state kept outside the objects under test). Re-run the whole task; if it fails again the
                # replayable artefact is the task (a sequence of cases), otherwise the checker is at fault.
                seq = first.get('_task')
                again = replay_fn(seq) if seq else None
                if (again is None or sig not in again.violations) and seq and sequence_fn is not None:
                    # last resort: the exact sequence of tasks the worker process had executed up to this one, in a
                    # fresh process (the run is deterministic: static partition, fixed order)
                    again = sequence_fn(seq)
                    if again is not None and sig in again.violations:
                        first = dict(first, case=dict(seq, worker_sequence=True, then=first['case']),
                                     note=(first.get('note') or '') + ' [fails only after the tasks the same worker '
                                     'process ran before: state survives in the library between unrelated calls]')
                if again is None or sig not in again.violations:
                    # cannot be replayed at all: listed, but only reproducible violations decide the verdict
                    unreproduced.append((sig, n, first))
                    lines.append('NOT-REPRODUCED sig=%s cases=%d observed=%s (failed during the run, passes when '
                                 're-executed alone and with its task)' % (sig, n, first['observed']))
                    continue
                if again is not None and sig in again.violations:
                    first = dict(first, case=dict(seq, then=first['case']),
                                 note=(first.get('note') or '') + ' [fails only after the earlier cases of this task]')
        digest = hashlib.sha1((prop + sig + json.dumps(first['case'], sort_keys=True)).encode()).hexdigest()[:12]
        path = os.path.join(VERIF, 'replays', '%s-%s.json' % (prop, digest))
        with open(path, 'w') as f:
            json.dump({'property': prop, 'sig': sig, 'count': n, 'tier': tier, 'seed': seed,
                       'case': first['case'], 'observed': first['observed'], 'expected': first['expected'],
                       'note': first['note'], 'more': details[1:],
                       'replay_cmd': './check %s --replay %s' % (prop, path)}, f, indent=1)
        new_viol += 1
        lines.append('VIOLATION property=%s replay=%s' % (prop, path))
        lines.append('  sig=%s cases=%d observed=%s expected=%s note=%s' % (
            sig, n, first['observed'], first['expected'], first['note']))
    if unreproduced and not new_viol:
        raise Broken('violations were seen during the run but none fails again when re-executed: %s' % (
            [u[0] for u in unreproduced],))
    cov = {
        'evaluations': acc.evaluations,
        'distinct_nontrivial': len(acc.keys),
        'trivial_cases': acc.trivial,
        'rule': desc.get('rule', ''),
        'samples': pick(acc.samples, MAX_SAMPLES),
        'distinct_outcomes': len(acc.outcomes),
        'outcomes': {str(k): v for k, v in sorted(acc.outcomes.items(), key=lambda kv: str(kv[0]))[:40]},
        'bounds': desc.get('bounds', {}),
        'exhaustive': bool(desc.get('exhaustive', False)),
        'caps_hit': desc.get('caps_hit', []),
        'counters': acc.counters,
    }
    if mod.LEVEL == 'model_checking':
        cov['states'] = acc.states
        cov['transitions'] = acc.transitions
        cov['traces_validated_against_impl'] = acc.transitions
    if extra_cov:
        cov.update(extra_cov)
    ev = {
        'property_id': prop, 'tier': tier, 'seed': seed, 'level': mod.LEVEL, 'coverage': cov,
        'assumptions': desc.get('assumptions', []),
        'wall_s': round(time.time() - t0, 3),
        'violations': new_viol,
        'known_findings_matched': sorted(s for s in acc.violations if s in known),
    }
    with open(os.path.join(VERIF, 'evidence', '%s.json' % prop), 'w') as f:
        json.dump(ev, f, indent=1)
        f.write('\n')
    for l in lines:
        print(l)
    print('%s tier=%s seed=%d level=%s evaluations=%d distinct_nontrivial=%d states=%d transitions=%d '
          'outcomes=%d violations=%d wall=%.1fs' % (prop, tier, seed, mod.LEVEL, acc.evaluations, len(acc.keys),
                                                    acc.states, acc.transitions, len(acc.outcomes), new_viol,
                                                    time.time() - t0))
    sys.stdout.flush()
    return 1 if new_viol else 0
