"""
Shared driver for C01 (round trip) and C02 (wire-format conformance): enumerated families over isogen, executed on
the real dumps/loads, judged by the round-trip oracle and/or by the reference codec.
"""
import copy

from vf import core, isogen
from vf.ref import iso_ref

EBCDIC = ('cp500', 'cp037', 'cp1140', 'cp273')


def enc_of(case):
    """'default' = the caller passes no encoding; the documentation says the default is latin_1"""
    return 'latin_1' if case['enc'] == 'default' else case['enc']


def lib_enc(case):
    return None if case['enc'] == 'default' else case['enc']


def case_key(case):
    return (case['cfg'], case['enc'], case['hex'], repr(case['f']), repr(case.get('pds')), case.get('mti'))


ALIASES = {'latin_1': 'iso-8859-1', 'cp500': 'IBM500', 'cp037': 'IBM037', 'ascii': 'US-ASCII', 'cp1140': 'ibm1140',
           'cp273': 'IBM273', 'cp1252': 'windows-1252', 'cp437': 'IBM437'}


def call_style(case):
    """how this case calls dumps/loads: 0 = options by keyword, 1 = all arguments positionally, 2 = by keyword with
    the codec named by one of its registered aliases (the codec registry, not the library, resolves names), 3 = with
    the configuration wrapped in a non-dict Mapping (MappingProxyType / ChainMap / UserDict)"""
    return (len(case['f']) + sum(f[0] for f in case['f']) + len(case.get('pds') or [])) % 4


def lib_call(fn, first, case, kw):
    style = call_style(case)
    # the TYPE of the first argument rotates as well: the message as dict / OrderedDict / defaultdict / UserDict, the
    # bytes as bytes / bytearray / memoryview (all of them work on the pinned tree; none is named by a property)
    tv = (sum(f[0] for f in case['f']) // 4 + len(case['f'])) % 4
    if isinstance(first, dict):
        import collections
        if tv == 1:
            first = collections.OrderedDict(first)
        elif tv == 2:
            first = collections.defaultdict(str, first)
        elif tv == 3:
            first = collections.UserDict(first)
    elif isinstance(first, bytes):
        if tv == 1:
            first = bytearray(first)
        elif tv == 2:
            first = memoryview(first)
    if style == 1:
        return fn(first, kw['encoding'], kw['iso_config'], kw['hex_bitmap'])
    if style == 2 and kw['encoding'] in ALIASES:
        return fn(first, **dict(kw, encoding=ALIASES[kw['encoding']]))
    if style == 3 and kw['iso_config'] is not None:
        # the configuration handed over as a read-only / layered / wrapped mapping instead of a plain dict
        import collections
        import types
        cfg = kw['iso_config']
        which = sum(f[0] for f in case['f']) % 3
        wrapped = types.MappingProxyType(cfg) if which == 0 else collections.ChainMap({}, cfg) if which == 1 \
            else collections.UserDict(cfg)
        return fn(first, **dict(kw, iso_config=wrapped))
    return fn(first, **kw)


def order_independent(case, msg, data, kw, acc, sigp):
    """the message is a mapping: the same keys and values inserted in another order (reversed here: MTI last, PDS keys
    before elements, high elements first) must give the same bytes. -> True if a violation was recorded"""
    if len(msg) < 3:
        return False
    from cardutil import iso8583
    rev = {k: copy.deepcopy(msg[k]) for k in reversed(list(msg))}
    try:
        data2 = iso8583.dumps(rev, **kw)
    except Exception as ex:
        acc.viol(sigp + '.insertion_order.exception', case, repr(ex), 'the same bytes as for ascending insertion order',
                 'the same message with its keys inserted in reverse order')
        return True
    if data2 != data:
        acc.viol(sigp + '.insertion_order', case, 'different bytes (%d vs %d)' % (len(data2), len(data)),
                 'the same bytes as for ascending insertion order',
                 'the same message with its keys inserted in reverse order')
        return True
    return False


def may_refuse(case):
    """a numeral handed over as text with more leading zeros than the element is wide: the number fits, so encoding it
    is fine, and a refusal of the over-long text is fine as well - emitting a shifted message is not"""
    return any(k == 'NS' and p[1] == 2 for _, k, p in case['f'])


def check_roundtrip(case, acc, sigp='c01'):
    from cardutil import iso8583
    msg, exp, cfg = isogen.build_message(case)
    kw = dict(encoding=lib_enc(case), iso_config=isogen.lib_cfg(case), hex_bitmap=case['hex'])
    try:
        data = lib_call(iso8583.dumps, copy.deepcopy(msg), case, kw)
    except Exception as ex:
        if may_refuse(case):
            acc.outcome('over-long numeral text refused')
            return
        acc.viol(sigp + '.dumps.exception', case, repr(ex), 'bytes', 'encoding a well-formed message raised')
        return
    if order_independent(case, msg, data, kw, acc, sigp):
        return
    try:
        out = lib_call(iso8583.loads, data, case, kw)
    except Exception as ex:
        acc.viol(sigp + '.loads.exception', case, repr(ex), 'dict', 'decoding the encoded message raised')
        return
    for k, v in exp.items():
        if k not in out:
            acc.viol(sigp + '.key_lost', case, 'missing ' + k, core.short(v, 80), 'original key absent after round trip')
            return
        if out[k] != v or type(out[k]) is not type(v) and not (isinstance(v, int) and isinstance(out[k], int)):
            acc.viol(sigp + '.value_changed.' + isogen.field_class(cfg[k[2:]]) if k.startswith('DE') else
                     sigp + '.value_changed.' + k[:3], case, '%s=%r' % (k, out[k]), '%s=%r' % (k, v),
                     'value differs after round trip')
            return
    carriers = set('DE%d' % b for b in iso_ref.pds_carrier_bits(cfg)) if case.get('pds') else set()
    for k in out:
        if k not in exp and not isogen.allowed_extra(k) and k not in carriers:
            acc.viol(sigp + '.extra_key', case, k, 'only documented derived keys', 'undocumented extra key')
            return


def _same_bitmap_hex(lib, ref, enc):
    """EBCDIC x hex don't-care: 32 lowercase hex characters, ASCII or in the chosen codec"""
    if lib == ref:
        return True
    try:
        return lib.decode(enc) == ref.decode('ascii')
    except UnicodeDecodeError:
        return False


def check_conformance(case, acc, sigp='c02'):
    from cardutil import iso8583
    msg, exp, cfg = isogen.build_message(case)
    enc, hx = enc_of(case), case['hex']
    kw = dict(encoding=lib_enc(case), iso_config=isogen.lib_cfg(case), hex_bitmap=hx)
    if any(k == 'UNENC' for _, k, _ in case['f']):
        # characters the codec cannot carry: the layout cannot represent the value - refused, never emitted in some
        # shorter / substituted form (a codec that CAN carry them is no case of this family)
        try:
            for v in msg.values():
                if isinstance(v, str):
                    v.encode(enc)
            return
        except UnicodeEncodeError:
            pass
        try:
            data = iso8583.dumps(copy.deepcopy(msg), **kw)
        except Exception:
            acc.outcome('unencodable text refused')
            return
        acc.viol(sigp + '.unencodable_emitted', case, 'dumps returned %d bytes' % len(data), 'refusal (exception)',
                 'a text value holds characters the codec %s cannot carry' % enc)
        return
    over = any(k in ('OVER', 'OVERICC') for _, k, _ in case['f'])
    if over:
        try:
            data = iso8583.dumps(copy.deepcopy(msg), **kw)
        except Exception:
            return
        acc.viol(sigp + '.overlength_emitted', case, 'dumps returned %d bytes: %r' % (len(data), data[20:26]),
                 'refusal (exception)', 'a variable-length value longer than its prefix can count was emitted')
        return
    try:
        ref, struct = iso_ref.encode(msg, cfg, enc, hx)
    except iso_ref.RefError as ex:
        raise core.Broken('generator produced a message the reference cannot encode: %s %r' % (ex, case))
    try:
        data = lib_call(iso8583.dumps, copy.deepcopy(msg), case, kw)
    except Exception as ex:
        if may_refuse(case):
            acc.outcome('over-long numeral text refused')
            return
        acc.viol(sigp + '.dumps.exception', case, repr(ex), 'bytes', 'encoding a well-formed message raised')
        return
    if order_independent(case, msg, data, kw, acc, sigp):
        return
    enc_ok = True
    if case.get('pds'):
        # how PDS keys are distributed over carriers is C12's subject (the statement does not fix greediness):
        # here only the reading of the produced bytes is compared
        try:
            want = iso_ref.decode(data, cfg, enc, hx)
        except iso_ref.RefError as ex:
            acc.viol(sigp + '.encode.unreadable', case, str(ex), 'a message of the documented layout')
            return
        # ... but the sub-elements must sit in elements that ARE PDS carriers under the configuration in force:
        # an independent reading of the bytes has to find every PDSxxxx that was given
        for k, v in msg.items():
            if k.startswith('PDS') and want.get(k) != v:
                acc.viol(sigp + '.encode.pds_not_in_carrier', case, '%s=%r in the reading of the produced bytes' % (
                    k, want.get(k, '<absent>')), '%s=%r' % (k, core.short(v, 60)),
                    'PDS data was not placed in the elements configured as PDS carriers')
                return
        ref = data
    if data != ref:
        hdr_end = 36 if hx else 20
        if hx and enc in EBCDIC and data[:4] == ref[:4] and data[hdr_end:] == ref[hdr_end:] \
                and _same_bitmap_hex(data[4:36], ref[4:36], enc):
            pass
        else:
            enc_ok = False
            where = 'length %d vs %d' % (len(data), len(ref))
            for name, s, e in struct:
                if data[s:e] != ref[s:e]:
                    where = '%s at %d..%d: %r vs %r' % (name, s, e, data[s:e][:24], ref[s:e][:24])
                    break
            part = where.split(' ')[0].split('.')[-1] if '.' in where.split(' ')[0] else where.split(' ')[0]
            acc.viol(sigp + '.encode.' + part, case, where, 'byte-identical to the reference encoding',
                     'wire bytes differ from the documented layout')
    # decode direction: independent reading of the same bytes
    src = data if enc_ok else ref
    try:
        want = iso_ref.decode(src if not (hx and enc in EBCDIC) else ref, cfg, enc, hx)
    except iso_ref.RefError as ex:
        raise core.Broken('reference cannot decode its own encoding: %s %r' % (ex, case))
    try:
        out = lib_call(iso8583.loads, src, case, kw)
    except Exception as ex:
        acc.viol(sigp + '.loads.exception', case, repr(ex), 'dict', 'decoding a layout-conformant message raised')
        return
    if out != want:
        for k in sorted(set(out) | set(want)):
            if out.get(k, '<absent>') != want.get(k, '<absent>'):
                acc.viol(sigp + '.decode.' + ('derived' if not k.startswith('DE') or '_' in k else 'element'), case,
                         '%s=%r' % (k, out.get(k, '<absent>')), '%s=%r' % (k, want.get(k, '<absent>')),
                         'decoded dict differs from the independent reading')
                return


# ---------------------------------------------------------------------------------------------------
# sequences: state left behind by an earlier call must not matter

PRE_STEPS = ['mci_ipm_encode', 'mideu_convert', 'csv_to_ipm', 'ipm_to_csv', 'param_tools', 'ipm_info', 'custom_codec',
             'dumps_same_dict', 'reader_writer_custom', 'bad_message']


def run_pre_step(name):
    """one ordinary, successful use of another part of the library (tiny inputs, in memory or in a temp dir)"""
    import contextlib
    import io
    import os
    import shutil
    import tempfile
    from cardutil import iso8583, mciipm
    from vf import corpus
    from vf.ref import vbs_ref
    pkg = isogen.get_cfg('PKG')
    msg = {'MTI': '1240', 'DE2': '5444330011112222', 'DE4': 5, 'PDS0023': 'CT6', 'PDS0158': 'ABC',
           'DE55': iso_ref.icc_build([(b'\x9f\x26', b'\x01\x02')]), 'DE43': 'A\\B\\C\\1234567890XYZAUS'}
    rec_cp500 = iso_ref.encode(msg, pkg, 'cp500', False)[0]
    rec_latin = iso_ref.encode(msg, pkg, 'latin_1', False)[0]
    with contextlib.redirect_stdout(io.StringIO()), contextlib.redirect_stderr(io.StringIO()):
        if name == 'mci_ipm_encode':
            from cardutil.cli import mci_ipm_encode
            mci_ipm_encode.mci_ipm_encode(io.BytesIO(vbs_ref.frame([rec_cp500])), out_file=io.BytesIO(),
                                          in_encoding='cp500', out_encoding='latin_1', in_format='vbs',
                                          out_format='1014')
        elif name == 'mideu_convert':
            from cardutil.cli import mideu
            d = tempfile.mkdtemp(prefix='vf_pre_')
            try:
                p = os.path.join(d, 'in.ipm')
                with open(p, 'wb') as f:
                    f.write(vbs_ref.frame([rec_cp500]))
                mideu.cli_run(func=mideu.convert, input=p, sourceformat='ebcdic', no1014blocking=True)
                mideu.cli_run(func=mideu.extract, input=p, sourceformat='ebcdic', no1014blocking=True,
                              csvoutputfile=os.path.join(d, 'o.csv'))
            finally:
                shutil.rmtree(d, ignore_errors=True)
        elif name == 'csv_to_ipm':
            from cardutil.cli import mci_csv_to_ipm
            from cardutil.config import config
            mci_csv_to_ipm.mci_csv_to_ipm(in_csv=io.StringIO('MTI,DE2,DE4,PDS0023\n1240,123456,7,AB\n'),
                                          out_ipm=io.BytesIO(), config=config, out_encoding='cp500')
        elif name == 'ipm_to_csv':
            from cardutil.cli import mci_ipm_to_csv
            from cardutil.config import config
            mci_ipm_to_csv.mci_ipm_to_csv(in_ipm=io.BytesIO(vbs_ref.frame([rec_latin])), out_csv=io.StringIO(),
                                          config=config, in_encoding='latin_1', no1014blocking=True)
        elif name == 'param_tools':
            from cardutil.cli import mci_ipm_param_encode, paramconv
            src = vbs_ref.frame([b'some parameter text', b'more'])
            mci_ipm_param_encode.mci_ipm_param_encode(io.BytesIO(src), io.BytesIO(), in_encoding='latin_1',
                                                      out_encoding='cp500', in_format='vbs', out_format='vbs')
            paramconv.mci_ipm_param_encode(io.BytesIO(src), io.BytesIO(), in_encoding='latin_1',
                                           out_encoding='cp500', blocked=False)
        elif name == 'ipm_info':
            mciipm.ipm_info(io.BytesIO(vbs_ref.frame([rec_latin])))
        elif name == 'custom_codec':
            cfg = corpus.cfg_of('CUSTOM')
            m2 = {'MTI': '1442', 'DE2': '5444330011112222', 'DE7': 42, 'DE32': '123456789012'}
            iso8583.loads(iso8583.dumps(dict(m2), encoding='cp500', iso_config=cfg, hex_bitmap=True),
                          encoding='cp500', iso_config=cfg, hex_bitmap=True)
        elif name == 'dumps_same_dict':
            d2 = dict(msg)
            iso8583.dumps(d2)
            iso8583.dumps(d2, encoding='cp500')
        elif name == 'reader_writer_custom':
            cfg = corpus.cfg_of('CUSTOM')
            f = io.BytesIO()
            with mciipm.IpmWriter(f, encoding='cp500', blocked=True, iso_config=cfg) as w:
                w.write({'MTI': '1442', 'DE2': '5444330011112222', 'DE7': 1})
            list(mciipm.IpmReader(io.BytesIO(f.getvalue()), encoding='cp500', blocked=True, iso_config=cfg))
        elif name == 'bad_message':
            for bad in (b'', b'12', rec_latin[:-3], rec_latin + b'x'):
                try:
                    iso8583.loads(bad)
                except Exception:
                    pass
            try:
                list(mciipm.IpmReader(io.BytesIO(vbs_ref.frame([rec_latin[:30]]))))
            except Exception:
                pass
        else:
            raise core.Broken('pre step ' + name)


def check_sequence(case, acc, fn, sigp):
    """case = {'pre': [...], 'alt': [sub-cases]}: pre steps, then every sub-case in order; any failure is reported
    with the WHOLE sequence as its replayable case"""
    for name in case.get('pre', []):
        try:
            run_pre_step(name)
        except core.Broken:
            raise
        except Exception as ex:
            acc.viol(sigp + '.sequence.pre_step_exception', case, '%s: %r' % (name, ex),
                     'an ordinary use of the library succeeds')
            return
    if case.get('inplace'):
        import copy
        isogen.set_live(copy.deepcopy(isogen.get_cfg(case['inplace']['base'])))
    from cardutil import config as libconfig
    original = libconfig.config['bit_config']
    try:
        for i, sub in enumerate(case['alt']):
            if case.get('inplace') and i > 0:
                for edit in case['inplace']['edits'][i - 1]:
                    isogen.apply_edit(isogen._LIVE['cfg'], edit)
            if sub.get('via_default'):
                # a NEW configuration object becomes the package default (config['bit_config'] = site configuration);
                # calls that pass no iso_config must follow it from now on
                import copy
                libconfig.config['bit_config'] = copy.deepcopy(isogen.get_cfg(sub['cfg']))
            else:
                libconfig.config['bit_config'] = original
            tmp = core.Acc()
            fn(sub, tmp, sigp)
            for sig, (n, dets) in tmp.violations.items():
                d = dets[0]
                acc.viol(sig.replace(sigp + '.', sigp + '.sequence.', 1), case, d['observed'], d['expected'],
                         'step %d of the sequence (pre steps %s)%s: %s' % (
                             i + 1, case.get('pre', []), ', its configuration installed as the package default and '
                             'no iso_config passed' if sub.get('via_default') else '', d['note']))
                return
    finally:
        libconfig.config['bit_config'] = original


def sequence_cases(seed):
    rich = {'cfg': 'PKG', 'enc': 'latin_1', 'hex': False, 'seed': seed, 'mti': '1240',
            'f': [[2, 'T', 16], [4, 'N', 4], [12, 'D', [2021, 1]], [43, 'DE43', 0], [55, 'ICC', 40], [63, 'T', 16]],
            'pds': [[23, 3], [52, 0], [158, 12]]}
    rich500 = dict(rich, enc='cp500', hex=True)
    raw = dict(rich, pds=None, f=rich['f'] + [[48, 'PDSRAW', [60, 3]]])
    # (a) every pre step (and every ordered pair of pre steps) before a message that uses PDS, ICC, DE43 and typed
    #     fields under the packaged default configuration
    for a in PRE_STEPS:
        yield {'pre': [a], 'alt': [rich, rich500, raw]}
    for a in PRE_STEPS:
        for b in PRE_STEPS:
            if a != b:
                yield {'pre': [a, b], 'alt': [rich, raw]}
    # (b) alternation A, B, A of configurations / codecs / bitmap renderings on the same element
    gens = ['GEN%d' % ((seed + i * 5) % 14) for i in range(2)]
    combos = [('PKG', gens[0]), (gens[0], gens[1]), (gens[0], gens[0] + 'S'), ('PKG', 'PKGS'), (gens[1], 'PKG')]
    for ca, cb in combos:
        ba, bb = isogen.bits_of(ca), isogen.bits_of(cb)
        cfa, cfb = isogen.get_cfg(ca), isogen.get_cfg(cb)
        for bit in ba:
            if bit not in bb:
                continue
            for vi in (0, 1):
                sa = {'cfg': ca, 'enc': 'latin_1', 'hex': False, 'seed': seed,
                      'f': [[bit] + isogen.boundary_variants(cfa[str(bit)])[vi]]}
                sb = {'cfg': cb, 'enc': 'cp500', 'hex': True, 'seed': seed,
                      'f': [[bit] + isogen.boundary_variants(cfb[str(bit)])[1 - vi]]}
                yield {'alt': [sa, sb, sa, dict(sa, enc='cp037'), dict(sb, hex=False, enc='latin_1'), sa]}


def rebind_cases(seed):
    """the package default configuration is REPLACED (config['bit_config'] = another dict) between calls that pass no
    iso_config: default, site configuration A, default, site configuration B, A, default"""
    small = {'cfg': 'PKG', 'enc': 'latin_1', 'hex': False, 'seed': seed, 'f': [[2, 'T', 16], [4, 'N', 4]],
             'pds': [[23, 3]]}
    gens = ['GEN%d' % ((seed + i * 5) % 14) for i in range(2)]
    for ca, cb in ((gens[0], gens[1]), ('WIDE', gens[0]), (gens[1], gens[0] + 'S')):
        cfa, cfb = isogen.get_cfg(ca), isogen.get_cfg(cb)
        bb = isogen.bits_of(cb)
        for k, bit in enumerate(isogen.bits_of(ca)):
            other = bb[k % len(bb)]
            for vi in (0, 1):
                sa = {'cfg': ca, 'enc': 'latin_1' if vi else 'cp500', 'hex': bool(vi) and bit % 2 == 0, 'seed': seed,
                      'f': [[bit] + isogen.boundary_variants(cfa[str(bit)])[vi]], 'via_default': True}
                sb = {'cfg': cb, 'enc': 'latin_1', 'hex': False, 'seed': seed,
                      'f': [[other] + isogen.boundary_variants(cfb[str(other)])[1 - vi]], 'via_default': True}
                yield {'rebind': True, 'alt': [small, sa, small, sb, sa, small]}


def inplace_cases(seed):
    """one caller-owned configuration object, edited in place between calls (documented usage: the configuration is a
    plain dict); every call must follow the configuration as it is at that time"""
    for gi in range(2):
        base = 'GEN%d' % ((seed + gi * 5) % 14)
        cfg = isogen.get_cfg(base)
        bits = isogen.bits_of(base)
        by = {}
        for b in bits:
            by.setdefault(isogen.field_class(cfg[str(b)]) + str(iso_ref.prefix_len(cfg[str(b)])), []).append(b)
        carriers = by.get('pds3', [])
        texts3 = by.get('var3', [])
        texts2 = by.get('var2', [])
        fixed = [b for b in by.get('fixed0', []) if cfg[str(b)]['field_length'] == 7]
        nums = by.get('num0', [])

        def sub(f, pds=None, enc='latin_1', hx=False):
            c = {'cfg': 'LIVE', 'enc': enc, 'hex': hx, 'seed': seed, 'f': f}
            if pds:
                c['pds'] = pds
            return c
        two_carriers = [[1, 900], [2, 500], [3, 3]]
        # S1: the set of PDS carrier elements changes: first carrier loses the processor, a text element gains it
        for k in range(min(3, len(carriers), len(texts3))):
            c1, t1 = carriers[k], texts3[k]
            e1 = [['del', c1, 'field_processor'], ['set', t1, 'field_processor', 'PDS']]
            e2 = [['set', c1, 'field_processor', 'PDS'], ['del', t1, 'field_processor']]
            yield {'inplace': {'base': base, 'edits': [e1, e2, e1]},
                   'alt': [sub([], two_carriers), sub([], two_carriers), sub([], two_carriers, 'cp500', True),
                           sub([[c1, 'T', 30]], two_carriers)]}
        # S2: a fixed width changes
        for b in fixed[:3]:
            yield {'inplace': {'base': base, 'edits': [[['set', b, 'field_length', 9]], [['set', b, 'field_length', 2]],
                                                        [['set', b, 'field_length', 7]]]},
                   'alt': [sub([[b, 'T', 7]]), sub([[b, 'T', 9]]), sub([[b, 'T', 2]], None, 'cp500'),
                           sub([[b, 'T', 7]])]}
        # S3: a processor appears on / disappears from a variable-length element
        for b in texts2[:3]:
            yield {'inplace': {'base': base, 'edits': [[['set', b, 'field_processor', 'PAN']],
                                                        [['set', b, 'field_processor', 'PAN-PREFIX']],
                                                        [['del', b, 'field_processor']]]},
                   'alt': [sub([[b, 'PAN', 16]]), sub([[b, 'PAN', 16]]), sub([[b, 'PAN', 19]]), sub([[b, 'PAN', 16]])]}
        # S4: the python type of a fixed element changes (number <-> text)
        for b in nums[:2]:
            yield {'inplace': {'base': base, 'edits': [[['del', b, 'field_python_type']],
                                                        [['set', b, 'field_python_type', 'int']]]},
                   'alt': [sub([[b, 'N', 4]]), sub([[b, 'T', 3]]), sub([[b, 'N', 3]])]}
        # S5: LLVAR <-> LLLVAR
        for b in texts2[:2]:
            yield {'inplace': {'base': base, 'edits': [[['set', b, 'field_type', 'LLLVAR']],
                                                        [['set', b, 'field_type', 'LLVAR']]]},
                   'alt': [sub([[b, 'T', 99]]), sub([[b, 'T', 500]]), sub([[b, 'T', 12]])]}


# ---------------------------------------------------------------------------------------------------
# families

def singles_cases(cfgname, enc, hx, bit, seed, extras=False):
    cfg = isogen.get_cfg(cfgname)
    bc = cfg[str(bit)]
    for kind, param in isogen.single_variants(bc):
        yield {'cfg': cfgname, 'enc': enc, 'hex': hx, 'seed': seed, 'f': [[bit, kind, param]]}
    if extras:
        cls = isogen.field_class(bc)
        pl = iso_ref.prefix_len(bc)
        if cls == 'fixed' and bc['field_length'] > 1:
            for n in sorted({1, bc['field_length'] // 2, bc['field_length'] - 1}):
                if n >= 1:
                    yield {'cfg': cfgname, 'enc': enc, 'hex': hx, 'seed': seed, 'f': [[bit, 'TS', n]]}
        if pl and cls in ('var', 'pan', 'panprefix'):
            for n in ((100, 101, 999) if pl == 2 else (1000, 1001)):
                yield {'cfg': cfgname, 'enc': enc, 'hex': hx, 'seed': seed, 'f': [[bit, 'OVER', n]]}
        if pl and cls == 'icc':
            for n in ((100, 255) if pl == 2 else (1000, 1001, 1008, 2000)):
                yield {'cfg': cfgname, 'enc': enc, 'hex': hx, 'seed': seed, 'f': [[bit, 'OVERICC', n]]}
        if pl and cls == 'var':
            for i in range(6):
                yield {'cfg': cfgname, 'enc': enc, 'hex': hx, 'seed': seed, 'f': [[bit, 'UNENC', i]]}


def pairs_cases(cfgname, enc, hx, a, seed):
    cfg = isogen.get_cfg(cfgname)
    for b in isogen.bits_of(cfgname):
        if b <= a:
            continue
        for va in isogen.boundary_variants(cfg[str(a)]):
            for vb in isogen.boundary_variants(cfg[str(b)]):
                yield {'cfg': cfgname, 'enc': enc, 'hex': hx, 'seed': seed, 'f': [[a] + va, [b] + vb]}


def triples_cases(cfgname, enc, hx, a, seed):
    """thorough only: every unordered triple containing bit a as its smallest member x {shortest, longest}^3"""
    import itertools
    cfg = isogen.get_cfg(cfgname)
    rest = [b for b in isogen.bits_of(cfgname) if b > a]
    for b, c in itertools.combinations(rest, 2):
        for va in isogen.boundary_variants(cfg[str(a)]):
            for vb in isogen.boundary_variants(cfg[str(b)]):
                for vc in isogen.boundary_variants(cfg[str(c)]):
                    yield {'cfg': cfgname, 'enc': enc, 'hex': hx, 'seed': seed, 'f': [[a] + va, [b] + vb, [c] + vc]}


def long_cases(cfgname, enc, hx, seed):
    cfg = isogen.get_cfg(cfgname)
    bits = isogen.bits_of(cfgname)

    def mk(sel, small=True, pds=None):
        f = []
        for b in sel:
            if pds and cfg[str(b)].get('field_processor') == 'PDS':
                continue
            f.append([b] + isogen.default_variant(cfg[str(b)], small))
        c = {'cfg': cfgname, 'enc': enc, 'hex': hx, 'seed': seed, 'f': f}
        if pds:
            c['pds'] = pds
        return c
    yield mk(bits)
    yield mk(bits, small=False)
    # every element present at its LONGEST admissible value (tens of kilobytes), and at its shortest
    for vi in (1, 0):
        yield {'cfg': cfgname, 'enc': enc, 'hex': hx, 'seed': seed,
               'f': [[b] + isogen.boundary_variants(cfg[str(b)])[vi] for b in bits]}
    ncar = len(iso_ref.pds_carrier_bits(cfg))
    yield mk(bits, pds=[[1, 3], [23, 0], [52, 990], [158, 12], [9999, 500], [148, 700]] if ncar >= 4 else
             [[1, 3], [23, 0], [52, 900]])
    if enc != 'ascii':
        c = mk(bits[:4], pds=[[1, 3], [23, 0], [52, 500], [158, 12]])
        c['pds_coding'] = 'full'
        yield c
    for b in bits:
        yield mk([x for x in bits if x != b])
    yield mk([b for b in bits if b <= 64])
    yield mk([b for b in bits if b >= 65])
    yield mk([b for b in bits if b % 2 == 0])
    yield mk([b for b in bits if b % 2 == 1])
    for i in range(0, max(1, len(bits) - 7)):
        yield mk(bits[i:i + 8])
    # MTI variants
    for mti in ('0000', '9999', '0100', '1644'):
        c = mk(bits[:3])
        c['mti'] = mti
        yield c
    yield {'cfg': cfgname, 'enc': enc, 'hex': hx, 'seed': seed, 'f': []}


def plan(tier, seed, which):
    """-> list of tasks (family, cfg, enc, hex, bit)"""
    ts = []
    if tier == 'quick':
        combos = [('PKG', e, h) for e in isogen.ENCODINGS_QUICK + ['default'] for h in (False, True)]
        gens = ['GEN%d' % ((seed + i * 5) % 14) for i in range(2)]
        combos += [(g, e, False) for g in gens for e in ('latin_1', 'cp500')]
        combos += [(gens[0], 'cp037', True), (gens[1], 'ascii', True)]
        pair_combos = [('PKG', e, h) for e in isogen.ENCODINGS_QUICK for h in (False, True)]
        pair_combos += [(gens[0], 'latin_1', False), (gens[1], 'cp500', True)]
        # the same configurations supplied with their keys in string-sorted (non-ascending) order
        pair_combos += [('PKGS', 'latin_1', False), (gens[0] + 'S', 'cp500', False)]
        order_combos = [('PKGS', 'latin_1', False), (gens[0] + 'S', 'cp500', False), ('PKGJ', 'cp500', False),
                        (gens[1] + 'J', 'latin_1', True)]
        pair_combos += [('PKGJ', 'latin_1', False)]
        # widths beyond anything the packaged configuration uses (FIXED 1002..2000, 30-60 digit numbers)
        combos += [('WIDE', 'latin_1', False), ('WIDE', 'cp500', True), ('WIDE', 'default', False)]
        pair_combos += [('WIDE', 'latin_1', False)]
    else:
        combos = [('PKG', e, h) for e in isogen.ENCODINGS_ALL + ['default'] for h in (False, True)]
        combos += [('GEN%d' % s, e, h) for s in range(14)
                   for (e, h) in (('latin_1', False), ('cp500', False), ('cp037', True), ('ascii', True),
                                  (isogen.ENCODINGS_ALL[4 + s % 4], bool(s % 2)))]
        pair_combos = [('PKG', e, h) for e in isogen.ENCODINGS_ALL for h in (False, True)]
        pair_combos += [('GEN%d' % s, e, h) for s in range(14)
                        for (e, h) in (('latin_1', False), ('cp500', True))]
        pair_combos += [('PKGS', 'latin_1', False), ('PKGS', 'cp500', True)] + \
            [('GEN%dS' % s, 'latin_1', False) for s in range(14)]
        order_combos = [('PKGS', 'latin_1', False)] + [('GEN%dS' % s, 'cp500', False) for s in range(0, 14, 3)]
        order_combos += [('PKGJ', 'cp500', False), ('PKGJ', 'latin_1', True)] + [('GEN%dJ' % s, 'latin_1', False)
                                                                                 for s in range(0, 14, 4)]
        pair_combos += [('PKGJ', 'latin_1', False), ('PKGJ', 'cp500', True)]
        combos += [('WIDE', e, h) for e in isogen.ENCODINGS_ALL + ['default'] for h in (False, True)]
        pair_combos += [('WIDE', 'latin_1', False), ('WIDE', 'cp500', True)]
    for cfgname, enc, hx in combos:
        for bit in isogen.bits_of(cfgname):
            ts.append({'fam': 'singles', 'cfg': cfgname, 'enc': enc, 'hex': hx, 'bit': bit, 'seed': seed,
                       'which': which})
        ts.append({'fam': 'long', 'cfg': cfgname, 'enc': enc, 'hex': hx, 'seed': seed, 'which': which})
    for cfgname, enc, hx in order_combos:
        ts.append({'fam': 'long', 'cfg': cfgname, 'enc': enc, 'hex': hx, 'seed': seed, 'which': which})
    for part in range(16):
        ts.append({'fam': 'sequence', 'part': part, 'of': 16, 'seed': seed, 'which': which, 'cfg': '-', 'enc': '-',
                   'hex': False})
    for cfgname, enc, hx in pair_combos:
        for bit in isogen.bits_of(cfgname):
            ts.append({'fam': 'pairs', 'cfg': cfgname, 'enc': enc, 'hex': hx, 'bit': bit, 'seed': seed,
                       'which': which})
    if tier == 'thorough':
        for enc, hx in (('latin_1', False), ('cp500', True)):
            for bit in isogen.bits_of('PKG'):
                ts.append({'fam': 'triples', 'cfg': 'PKG', 'enc': enc, 'hex': hx, 'bit': bit, 'seed': seed,
                           'which': which})
    # interleave heavy and light tasks for an even static partition
    ts.sort(key=lambda t: (t['fam'], t['bit'] if 'bit' in t else 0, t['cfg'], t['enc'], t['hex']))
    return ts


def run_task(task):
    acc = core.Acc()
    which = task['which']
    fn = check_roundtrip if which == 'C01' else check_conformance
    if task['fam'] == 'sequence':
        n = 0
        import itertools
        for i, case in enumerate(itertools.chain(sequence_cases(task['seed']), inplace_cases(task['seed']),
                                                 rebind_cases(task['seed']))):
            if i % task['of'] != task['part']:
                continue
            acc.case(('seq', repr(case.get('pre')), repr(case.get('inplace')), case.get('rebind'),
                      repr([c['f'] for c in case['alt']]),
                      repr([(c['cfg'], c['enc'], c['hex']) for c in case['alt']])), nontrivial=True, outcome='sequence')
            if n == 0:
                acc.sample({'pre': case.get('pre', []), 'alt': [dict(c, f=c['f'][:2]) for c in case['alt'][:3]]})
            n += 1
            check_sequence(case, acc, fn, which.lower())
        return acc
    if task['fam'] == 'singles':
        gen = singles_cases(task['cfg'], task['enc'], task['hex'], task['bit'], task['seed'], extras=(which == 'C02'))
    elif task['fam'] == 'pairs':
        gen = pairs_cases(task['cfg'], task['enc'], task['hex'], task['bit'], task['seed'])
    elif task['fam'] == 'triples':
        gen = triples_cases(task['cfg'], task['enc'], task['hex'], task['bit'], task['seed'])
    else:
        gen = long_cases(task['cfg'], task['enc'], task['hex'], task['seed'])
    n = 0
    for case in gen:
        acc.case(case_key(case), nontrivial=bool(case['f']) or bool(case.get('pds')), outcome=task['fam'])
        if n == 1 or (n == 0 and task['fam'] != 'singles'):
            s = dict(case)
            if len(s['f']) > 6:
                s['f'] = s['f'][:6] + ['... %d elements' % len(case['f'])]
            acc.sample(s)
        n += 1
        fn(case, acc, which.lower())
    return acc
