"""
Shared driver for C01 (round trip) and C02 (wire-format conformance): enumerated families over isogen, executed on
the real dumps/loads, judged by the round-trip oracle and/or by the reference codec.
"""
import copy

from vf import core, isogen
from vf.ref import iso_ref

EBCDIC = ('cp500', 'cp037', 'cp1140', 'cp273')


def case_key(case):
    return (case['cfg'], case['enc'], case['hex'], repr(case['f']), repr(case.get('pds')), case.get('mti'))


def check_roundtrip(case, acc, sigp='c01'):
    from cardutil import iso8583
    msg, exp, cfg = isogen.build_message(case)
    kw = dict(encoding=case['enc'], iso_config=cfg, hex_bitmap=case['hex'])
    try:
        data = iso8583.dumps(copy.deepcopy(msg), **kw)
    except Exception as ex:
        acc.viol(sigp + '.dumps.exception', case, repr(ex), 'bytes', 'encoding a well-formed message raised')
        return
    try:
        out = iso8583.loads(data, **kw)
    except Exception as ex:
        acc.viol(sigp + '.loads.exception', case, repr(ex), 'dict', 'decoding the encoded message raised')
        return
    for k, v in exp.items():
        if k not in out:
            acc.viol(sigp + '.key_lost', case, 'missing ' + k, core.short(v, 80), 'original key absent after round trip')
            return
        if out[k] != v or type(out[k]) is not type(v) and not (isinstance(v, int) and isinstance(out[k], int)):
            acc.viol(sigp + '.value_changed.' + isogen.field_class(cfg[k[2:]]) if k.startswith('DE') else
                     sigp + '.value_changed.' + k[:3], case, '%s=%r' % (k, out[k]), '%s=%r' % (k, v),
                     'value differs after round trip')
            return
    carriers = set('DE%d' % b for b in iso_ref.pds_carrier_bits(cfg)) if case.get('pds') else set()
    for k in out:
        if k not in exp and not isogen.allowed_extra(k) and k not in carriers:
            acc.viol(sigp + '.extra_key', case, k, 'only documented derived keys', 'undocumented extra key')
            return


def _same_bitmap_hex(lib, ref, enc):
    """EBCDIC x hex don't-care: 32 lowercase hex characters, ASCII or in the chosen codec"""
    if lib == ref:
        return True
    try:
        return lib.decode(enc) == ref.decode('ascii')
    except UnicodeDecodeError:
        return False


def check_conformance(case, acc, sigp='c02'):
    from cardutil import iso8583
    msg, exp, cfg = isogen.build_message(case)
    enc, hx = case['enc'], case['hex']
    kw = dict(encoding=enc, iso_config=cfg, hex_bitmap=hx)
    over = any(k == 'OVER' for _, k, _ in case['f'])
    if over:
        try:
            data = iso8583.dumps(copy.deepcopy(msg), **kw)
        except Exception:
            return
        acc.viol(sigp + '.overlength_emitted', case, 'dumps returned %d bytes: %r' % (len(data), data[20:26]),
                 'refusal (exception)', 'a variable-length value longer than its prefix can count was emitted')
        return
    try:
        ref, struct = iso_ref.encode(msg, cfg, enc, hx)
    except iso_ref.RefError as ex:
        raise core.Broken('generator produced a message the reference cannot encode: %s %r' % (ex, case))
    try:
        data = iso8583.dumps(copy.deepcopy(msg), **kw)
    except Exception as ex:
        acc.viol(sigp + '.dumps.exception', case, repr(ex), 'bytes', 'encoding a well-formed message raised')
        return
    enc_ok = True
    if case.get('pds'):
        # how PDS keys are distributed over carriers is C12's subject (the statement does not fix greediness):
        # here only the reading of the produced bytes is compared
        try:
            want = iso_ref.decode(data, cfg, enc, hx)
        except iso_ref.RefError as ex:
            acc.viol(sigp + '.encode.unreadable', case, str(ex), 'a message of the documented layout')
            return
        ref = data
    if data != ref:
        hdr_end = 36 if hx else 20
        if hx and enc in EBCDIC and data[:4] == ref[:4] and data[hdr_end:] == ref[hdr_end:] \
                and _same_bitmap_hex(data[4:36], ref[4:36], enc):
            pass
        else:
            enc_ok = False
            where = 'length %d vs %d' % (len(data), len(ref))
            for name, s, e in struct:
                if data[s:e] != ref[s:e]:
                    where = '%s at %d..%d: %r vs %r' % (name, s, e, data[s:e][:24], ref[s:e][:24])
                    break
            part = where.split(' ')[0].split('.')[-1] if '.' in where.split(' ')[0] else where.split(' ')[0]
            acc.viol(sigp + '.encode.' + part, case, where, 'byte-identical to the reference encoding',
                     'wire bytes differ from the documented layout')
    # decode direction: independent reading of the same bytes
    src = data if enc_ok else ref
    try:
        want = iso_ref.decode(src if not (hx and enc in EBCDIC) else ref, cfg, enc, hx)
    except iso_ref.RefError as ex:
        raise core.Broken('reference cannot decode its own encoding: %s %r' % (ex, case))
    try:
        out = iso8583.loads(src, **kw)
    except Exception as ex:
        acc.viol(sigp + '.loads.exception', case, repr(ex), 'dict', 'decoding a layout-conformant message raised')
        return
    if out != want:
        for k in sorted(set(out) | set(want)):
            if out.get(k, '<absent>') != want.get(k, '<absent>'):
                acc.viol(sigp + '.decode.' + ('derived' if not k.startswith('DE') or '_' in k else 'element'), case,
                         '%s=%r' % (k, out.get(k, '<absent>')), '%s=%r' % (k, want.get(k, '<absent>')),
                         'decoded dict differs from the independent reading')
                return


# ---------------------------------------------------------------------------------------------------
# families

def singles_cases(cfgname, enc, hx, bit, seed, extras=False):
    cfg = isogen.get_cfg(cfgname)
    bc = cfg[str(bit)]
    for kind, param in isogen.single_variants(bc):
        yield {'cfg': cfgname, 'enc': enc, 'hex': hx, 'seed': seed, 'f': [[bit, kind, param]]}
    if extras:
        cls = isogen.field_class(bc)
        pl = iso_ref.prefix_len(bc)
        if cls == 'fixed' and bc['field_length'] > 1:
            for n in sorted({1, bc['field_length'] // 2, bc['field_length'] - 1}):
                if n >= 1:
                    yield {'cfg': cfgname, 'enc': enc, 'hex': hx, 'seed': seed, 'f': [[bit, 'TS', n]]}
        if pl and cls in ('var', 'pan', 'panprefix'):
            for n in ((100, 101, 999) if pl == 2 else (1000, 1001)):
                yield {'cfg': cfgname, 'enc': enc, 'hex': hx, 'seed': seed, 'f': [[bit, 'OVER', n]]}


def pairs_cases(cfgname, enc, hx, a, seed):
    cfg = isogen.get_cfg(cfgname)
    for b in isogen.bits_of(cfgname):
        if b <= a:
            continue
        for va in isogen.boundary_variants(cfg[str(a)]):
            for vb in isogen.boundary_variants(cfg[str(b)]):
                yield {'cfg': cfgname, 'enc': enc, 'hex': hx, 'seed': seed, 'f': [[a] + va, [b] + vb]}


def triples_cases(cfgname, enc, hx, a, seed):
    """thorough only: every unordered triple containing bit a as its smallest member x {shortest, longest}^3"""
    import itertools
    cfg = isogen.get_cfg(cfgname)
    rest = [b for b in isogen.bits_of(cfgname) if b > a]
    for b, c in itertools.combinations(rest, 2):
        for va in isogen.boundary_variants(cfg[str(a)]):
            for vb in isogen.boundary_variants(cfg[str(b)]):
                for vc in isogen.boundary_variants(cfg[str(c)]):
                    yield {'cfg': cfgname, 'enc': enc, 'hex': hx, 'seed': seed, 'f': [[a] + va, [b] + vb, [c] + vc]}


def long_cases(cfgname, enc, hx, seed):
    cfg = isogen.get_cfg(cfgname)
    bits = isogen.bits_of(cfgname)

    def mk(sel, small=True, pds=None):
        f = []
        for b in sel:
            if pds and cfg[str(b)].get('field_processor') == 'PDS':
                continue
            f.append([b] + isogen.default_variant(cfg[str(b)], small))
        c = {'cfg': cfgname, 'enc': enc, 'hex': hx, 'seed': seed, 'f': f}
        if pds:
            c['pds'] = pds
        return c
    yield mk(bits)
    yield mk(bits, small=False)
    yield mk(bits, pds=[[1, 3], [23, 0], [52, 990], [158, 12], [9999, 500], [148, 700]])
    for b in bits:
        yield mk([x for x in bits if x != b])
    yield mk([b for b in bits if b <= 64])
    yield mk([b for b in bits if b >= 65])
    yield mk([b for b in bits if b % 2 == 0])
    yield mk([b for b in bits if b % 2 == 1])
    for i in range(0, max(1, len(bits) - 7)):
        yield mk(bits[i:i + 8])
    # MTI variants
    for mti in ('0000', '9999', '0100', '1644'):
        c = mk(bits[:3])
        c['mti'] = mti
        yield c
    yield {'cfg': cfgname, 'enc': enc, 'hex': hx, 'seed': seed, 'f': []}


def plan(tier, seed, which):
    """-> list of tasks (family, cfg, enc, hex, bit)"""
    ts = []
    if tier == 'quick':
        combos = [('PKG', e, h) for e in isogen.ENCODINGS_QUICK for h in (False, True)]
        gens = ['GEN%d' % ((seed + i * 5) % 14) for i in range(2)]
        combos += [(g, e, False) for g in gens for e in ('latin_1', 'cp500')]
        combos += [(gens[0], 'cp037', True), (gens[1], 'ascii', True)]
        pair_combos = [('PKG', e, h) for e in isogen.ENCODINGS_QUICK for h in (False, True)]
        pair_combos += [(gens[0], 'latin_1', False), (gens[1], 'cp500', True)]
        # the same configurations supplied with their keys in string-sorted (non-ascending) order
        pair_combos += [('PKGS', 'latin_1', False), (gens[0] + 'S', 'cp500', False)]
        order_combos = [('PKGS', 'latin_1', False), (gens[0] + 'S', 'cp500', False)]
    else:
        combos = [('PKG', e, h) for e in isogen.ENCODINGS_ALL for h in (False, True)]
        combos += [('GEN%d' % s, e, h) for s in range(14)
                   for (e, h) in (('latin_1', False), ('cp500', False), ('cp037', True), ('ascii', True),
                                  (isogen.ENCODINGS_ALL[4 + s % 4], bool(s % 2)))]
        pair_combos = [('PKG', e, h) for e in isogen.ENCODINGS_ALL for h in (False, True)]
        pair_combos += [('GEN%d' % s, e, h) for s in range(14)
                        for (e, h) in (('latin_1', False), ('cp500', True))]
        pair_combos += [('PKGS', 'latin_1', False), ('PKGS', 'cp500', True)] + \
            [('GEN%dS' % s, 'latin_1', False) for s in range(14)]
        order_combos = [('PKGS', 'latin_1', False)] + [('GEN%dS' % s, 'cp500', False) for s in range(0, 14, 3)]
    for cfgname, enc, hx in combos:
        for bit in isogen.bits_of(cfgname):
            ts.append({'fam': 'singles', 'cfg': cfgname, 'enc': enc, 'hex': hx, 'bit': bit, 'seed': seed,
                       'which': which})
        ts.append({'fam': 'long', 'cfg': cfgname, 'enc': enc, 'hex': hx, 'seed': seed, 'which': which})
    for cfgname, enc, hx in order_combos:
        ts.append({'fam': 'long', 'cfg': cfgname, 'enc': enc, 'hex': hx, 'seed': seed, 'which': which})
    for cfgname, enc, hx in pair_combos:
        for bit in isogen.bits_of(cfgname):
            ts.append({'fam': 'pairs', 'cfg': cfgname, 'enc': enc, 'hex': hx, 'bit': bit, 'seed': seed,
                       'which': which})
    if tier == 'thorough':
        for enc, hx in (('latin_1', False), ('cp500', True)):
            for bit in isogen.bits_of('PKG'):
                ts.append({'fam': 'triples', 'cfg': 'PKG', 'enc': enc, 'hex': hx, 'bit': bit, 'seed': seed,
                           'which': which})
    # interleave heavy and light tasks for an even static partition
    ts.sort(key=lambda t: (t['fam'], t['bit'] if 'bit' in t else 0, t['cfg'], t['enc'], t['hex']))
    return ts


def run_task(task):
    acc = core.Acc()
    which = task['which']
    fn = check_roundtrip if which == 'C01' else check_conformance
    if task['fam'] == 'singles':
        gen = singles_cases(task['cfg'], task['enc'], task['hex'], task['bit'], task['seed'], extras=(which == 'C02'))
    elif task['fam'] == 'pairs':
        gen = pairs_cases(task['cfg'], task['enc'], task['hex'], task['bit'], task['seed'])
    elif task['fam'] == 'triples':
        gen = triples_cases(task['cfg'], task['enc'], task['hex'], task['bit'], task['seed'])
    else:
        gen = long_cases(task['cfg'], task['enc'], task['hex'], task['seed'])
    n = 0
    for case in gen:
        acc.case(case_key(case), nontrivial=bool(case['f']) or bool(case.get('pds')), outcome=task['fam'])
        if n == 1 or (n == 0 and task['fam'] != 'singles'):
            s = dict(case)
            if len(s['f']) > 6:
                s['f'] = s['f'][:6] + ['... %d elements' % len(case['f'])]
            acc.sample(s)
        n += 1
        fn(case, acc, which.lower())
    return acc
