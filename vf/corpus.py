"""Base corpus of reference-encoded messages (with structure maps) and files, shared by C07, C08, C10."""
import copy
import datetime
import decimal

from vf import isogen
from vf.ref import blk_ref, iso_ref, vbs_ref


def custom_cfg():
    """packaged configuration + typed / processor variants the package does not use (decimal, PAN, PAN-PREFIX)"""
    cfg = copy.deepcopy(isogen.get_cfg('PKG'))
    cfg['2'] = dict(cfg['2'], field_processor='PAN')
    cfg['32'] = dict(cfg['32'], field_processor='PAN-PREFIX')
    cfg['6'] = {'field_name': 'dec', 'field_type': 'FIXED', 'field_length': 12, 'field_python_type': 'decimal'}
    cfg['73'] = {'field_name': 'date', 'field_type': 'FIXED', 'field_length': 6, 'field_python_type': 'datetime'}
    cfg['7'] = {'field_name': 'llvar int', 'field_type': 'LLVAR', 'field_length': 0, 'field_python_type': 'int'}
    return cfg


CFGS = {}


def cfg_of(name):
    if name not in CFGS:
        CFGS[name] = custom_cfg() if name == 'CUSTOM' else isogen.get_cfg(name)
    return CFGS[name]


def messages():
    """name -> (cfg name, msg dict)"""
    icc = iso_ref.icc_build([(b'\x9f\x26', bytes(range(8))), (b'\x82', b'\x1c\x00'), (b'\x95', b''),
                             (b'\x5f\x2a', b'\x00\x36')])
    return {
        'plain': ('PKG', {'MTI': '1240', 'DE2': '5444330011112222', 'DE3': '000000', 'DE4': 12345,
                          'DE12': datetime.datetime(2021, 3, 4, 5, 6, 7), 'DE22': 'ABCDEFGHIJKL', 'DE26': 5411,
                          'DE31': '12345678901234567890123', 'DE49': '036', 'DE71': 1, 'DE94': '00012345',
                          'DE127': 'network data'}),
        'pds': ('PKG', {'MTI': '1240', 'DE2': '5444330011112222', 'PDS0023': 'CT6', 'PDS0052': '',
                        'PDS0158': 'ABCDEFGHIJKL', 'DE49': '036', 'DE62': '0001002AB0002000'}),
        'icc': ('PKG', {'MTI': '1240', 'DE3': '000000', 'DE55': icc, 'DE63': 'LIFECYCLE0000001'}),
        'de43': ('PKG', {'MTI': '1240', 'DE42': 'MERCHANT0000001',
                         'DE43': 'BIG BOBS\\80 KERNDALE ST\\DANERLEY\\3103      VICAUS', 'DE49': '036'}),
        'typed': ('CUSTOM', {'MTI': '1442', 'DE2': '5444330011112222', 'DE4': 0, 'DE6': decimal.Decimal('12.50'),
                             'DE7': 42, 'DE12': datetime.datetime(1999, 12, 31, 23, 59, 59),
                             'DE32': '123456789012', 'DE73': datetime.datetime(2024, 2, 29)}),
        'min': ('PKG', {'MTI': '1644'}),
        'maxvar': ('PKG', {'MTI': '1240', 'DE2': '5' * 19, 'DE31': 'R' * 99, 'DE54': isogen.text(997, 1, isogen.alphabets('ascii')[0]),
                           'DE55': iso_ref.icc_build(isogen.icc_of_length(999, 5)),
                           'DE72': isogen.text(999, 2, isogen.alphabets('ascii')[0]),
                           'DE111': isogen.text(998, 3, isogen.alphabets('ascii')[0]), 'DE127': 'N' * 3}),
        # widths beyond 999: FIXED elements carry no length prefix, so nothing limits them
        'wide': ('WIDE', {'MTI': '1240', 'DE2': isogen.text(1500, 4, isogen.alphabets('ascii')[0]),
                          'DE3': decimal.Decimal('1234567890123456789012345678901234.56'),
                          'DE4': isogen.text(1003, 5, isogen.alphabets('ascii')[0]), 'DE5': 'abc',
                          'DE6': 10 ** 29 + 7, 'DE11': 'xyz', 'DE70': isogen.text(1002, 6, isogen.alphabets('ascii')[0]),
                          'DE127': 10 ** 59 + 1}),
        # the administrative messages of a clearing file: header (function code 697) and trailer (695, with counts)
        'header': ('PKG', {'MTI': '1644', 'DE24': '697', 'PDS0105': '0012406010000011111000001', 'PDS0122': 'T',
                           'DE71': 1}),
        'trailer': ('PKG', {'MTI': '1644', 'DE24': '695', 'PDS0105': '0012406010000011111000001',
                            'PDS0301': '0000000000012345', 'PDS0306': '00000002', 'DE71': 3}),
        'zero_len': ('PKG', {'MTI': '1240', 'DE3': '123456'}),
        'gen': ('GEN3', None),
    }


def gen_message(cfgname):
    cfg = cfg_of(cfgname)
    msg = {'MTI': '1240'}
    picked = set()
    for b in isogen.bits_of(cfgname):
        cls = isogen.field_class(cfg[str(b)])
        if cls in picked or cls == 'pds':
            continue
        picked.add(cls)
        kind, param = isogen.default_variant(cfg[str(b)])
        msg['DE%d' % b] = isogen.build_value(cfg[str(b)], kind, param, 'latin_1', 0, b)
    msg['PDS0001'] = 'x'
    return msg


def encoded(name, enc, hx):
    """-> (bytes, full structure map, cfg, cfg name)"""
    cfgname, msg = messages()[name]
    if msg is None:
        msg = gen_message(cfgname)
    cfg = cfg_of(cfgname)
    data, st = iso_ref.encode(msg, cfg, enc, hx)
    return data, iso_ref.substructure(data, st, cfg, enc), cfg, cfgname


def vbs_file(records, blocked):
    stream = vbs_ref.frame(records)
    return blk_ref.block(stream) if blocked else stream


def raw_message(enc, hx, elems, mti='1240'):
    """hand-laid message: elems = [(bit, prefix bytes or b'', data bytes)] -> (bytes, structure)"""
    bm = bytearray(16)
    bm[0] |= 0x80
    for bit, _, _ in elems:
        bm[(bit - 1) // 8] |= 0x80 >> ((bit - 1) % 8)
    out = bytearray(mti.encode(enc))
    st = [('mti', 0, 4)]
    b = bytes(bm).hex().encode('ascii') if hx else bytes(bm)
    st.append(('bitmap', 4, 4 + len(b)))
    out += b
    for bit, prefix, data in sorted(elems):
        if prefix:
            st.append(('DE%d.prefix' % bit, len(out), len(out) + len(prefix)))
            out += prefix
        st.append(('DE%d.data' % bit, len(out), len(out) + len(data)))
        out += data
    return bytes(out), st


def multibyte_bases():
    """well-framed messages under a multi-byte codec (utf-8): lengths and widths count BYTES on the wire"""
    e = lambda t: t.encode('utf-8')   # noqa
    de41 = e('CAF\u00c9 01')                  # 8 bytes, 7 characters
    de72 = e('\u00c9\u00d1\u00dc text \u20ac 12')
    de43 = e('CAF\u00c9\\RUE\\PARIS\\75001     IDFFRA')
    return {
        'u8_fixed': raw_message('utf-8', False, [(3, b'', e('123456')), (41, b'', de41), (49, b'', e('978'))]),
        'u8_var': raw_message('utf-8', False, [(2, e('16'), e('5444330011112222')),
                                               (43, e('%02d' % len(de43)), de43),
                                               (72, e('%03d' % len(de72)), de72)]),
    }


def zero_length_bases(enc, hx):
    """messages whose variable-length elements are present with length zero (the reference encoder treats empty as
    absent, so these are laid out by hand)"""
    e = lambda s: s.encode(enc)   # noqa
    return {
        'z_de2': raw_message(enc, hx, [(2, e('00'), b''), (3, b'', e('123456'))]),
        'z_pds': raw_message(enc, hx, [(3, b'', e('123456')), (48, e('000'), b''), (49, b'', e('036'))]),
        'z_icc': raw_message(enc, hx, [(55, e('000'), b''), (63, e('003'), e('abc'))]),
        'z_all': raw_message(enc, hx, [(2, e('00'), b''), (31, e('00'), b''), (43, e('00'), b''), (54, e('000'), b''),
                                       (72, e('000'), b''), (127, e('000'), b'')]),
    }
