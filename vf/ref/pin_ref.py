"""ISO 9564-1 PIN block formats 0 and 4 (clear construction), Visa PVV, key check value - from the standards'
descriptions, independent of the library."""
from vf.ref import des_ref


def iso0_clear(pin, pan):
    """(0, PIN length as one hex digit, PIN, F fill) XOR (0000, 12 rightmost PAN digits excluding the check digit)"""
    if not 4 <= len(pin) <= 12 or not pin.isdigit():
        raise ValueError('PIN')
    p1 = ('0' + '%X' % len(pin) + pin).ljust(16, 'F')
    twelve = pan[:-1][-12:]
    if len(twelve) != 12:
        raise ValueError('PAN too short')
    p2 = '0000' + twelve
    return (int(p1, 16) ^ int(p2, 16)).to_bytes(8, 'big')


def iso0_pin(block, pan):
    p2 = int('0000' + pan[:-1][-12:], 16)
    p1 = '%016X' % (int.from_bytes(block, 'big') ^ p2)
    n = int(p1[1], 16)
    return p1[2:2 + n]


def iso4_clear(pin, fill64):
    """(4, length hex digit, PIN, A fill to 16 digits, 64 random bits)"""
    if not 4 <= len(pin) <= 12 or not pin.isdigit():
        raise ValueError('PIN')
    if not 0 <= fill64 < 1 << 64:
        raise ValueError('fill')
    head = ('4' + '%X' % len(pin) + pin).ljust(16, 'A')
    return bytes.fromhex(head) + fill64.to_bytes(8, 'big')


def iso4_pin(block):
    hx = block.hex().upper()
    n = int(hx[1], 16)
    return hx[2:2 + n]


def visa_pvv(pin, pan, key_index, key):
    """TSP = 11 rightmost PAN digits excluding the check digit + key index + leftmost 4 PIN digits; encrypt with
    (3)DES; scan the hex result left to right for decimal digits; if fewer than 4, scan again mapping A-F to 0-5."""
    eleven = pan[:-1][-11:]
    if len(eleven) != 11 or not 0 <= int(key_index) <= 9:
        raise ValueError('PAN / key index')
    tsp = eleven + str(int(key_index)) + pin[:4]
    ct = des_ref.tdes_ecb_encrypt(key, bytes.fromhex(tsp)).hex().upper()
    out = [c for c in ct if c in '0123456789']
    if len(out) < 4:
        out += [str(int(c, 16) - 10) for c in ct if c in 'ABCDEF']
    return ''.join(out[:4]), ct


def kcv(key, n=6):
    """leading hex digits of the 3DES encryption of zeros under the key"""
    return des_ref.tdes_ecb_encrypt(key, b'\x00' * 8).hex()[:n]


def xor_hex(parts, nbytes=16):
    v = 0
    for p in parts:
        v ^= int(p, 16)
    return '%0*x' % (nbytes * 2, v)


def selfcheck():
    des_ref.selfcheck()
    # ISO 9564 / common worked example: PIN 1234, PAN 43219876543210987 -> 0412AC89ABCDEF67
    assert iso0_clear('1234', '43219876543210987').hex().upper() == '0412AC89ABCDEF67'
    assert iso0_pin(bytes.fromhex('0412AC89ABCDEF67'), '43219876543210987') == '1234'
    assert iso4_clear('1234', 0x837c658036105d19).hex() == '441234aaaaaaaaaa837c658036105d19'
    assert iso4_pin(iso4_clear('123456789012', 5)) == '123456789012'
    assert iso0_pin(iso0_clear('123456789012', '4000001234562'), '4000001234562') == '123456789012'
