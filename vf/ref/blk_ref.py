"""1014 blocking, from the module documentation: payload cut into 1012-byte pieces, each followed by two 0x40;
the last incomplete piece is filled with 0x40 to 1012."""

BLOCK = 1014
PAYLOAD = 1012
FILL = b'\x40'
FILL_BLOCK = FILL * BLOCK


def block(payload):
    out = []
    for i in range(0, len(payload), PAYLOAD):
        piece = payload[i:i + PAYLOAD]
        out.append(piece + FILL * (PAYLOAD - len(piece)) + FILL * 2)
    return b''.join(out)


def wellformed(data):
    """-> None if data is a whole number of blocks each ending in two 0x40, else a reason"""
    if len(data) % BLOCK:
        return 'length %d is not a multiple of 1014' % len(data)
    for i in range(0, len(data), BLOCK):
        if data[i + PAYLOAD:i + BLOCK] != FILL * 2:
            return 'block %d does not end in 0x40 0x40' % (i // BLOCK)
    return None


def payload(data):
    """payload stream of a possibly truncated blocked file: the <=1012 leading bytes of every (partial) block"""
    return b''.join(data[i:i + PAYLOAD] for i in range(0, len(data), BLOCK))


def position_code(n, salt=0):
    """n bytes; byte i is a function of i with period 251; never 0x00 or 0x40"""
    alph = bytes(b for b in range(256) if b not in (0x00, 0x40))[:251]
    base = bytes(alph[(i * 7 + salt) % 251] for i in range(251))
    return (base * (n // 251 + 1))[:n]


def selfcheck():
    assert block(b'') == b''
    assert block(b'a') == b'a' + FILL * 1013
    assert len(block(b'a' * 1012)) == 1014 and len(block(b'a' * 1013)) == 2028
    assert wellformed(block(b'x' * 3000)) is None
    assert payload(block(b'x' * 3000))[:3000] == b'x' * 3000
    p = position_code(3000)
    assert 0x40 not in p and 0 not in p and p[0:251] == p[251:502] and len(set(p[:251])) == 251
