"""VBS framing, from the module documentation: each record preceded by its length as a 4-byte big-endian
integer; the file ends with a zero length."""
import struct


def frame(records, terminator=True):
    out = []
    for r in records:
        out.append(struct.pack('>I', len(r)))
        out.append(r)
    if terminator:
        out.append(b'\x00\x00\x00\x00')
    return b''.join(out)


def parse_prefix(stream, max_len=6000):
    """Records wholly contained in `stream` (a possibly cut VBS byte stream), stopping at the first zero length,
    the first length above max_len, or the first record that is not wholly present.
    -> (records, offsets, stop) where stop in {'terminator','eof','short_prefix','short_record','too_long'}"""
    recs, offs = [], []
    pos = 0
    n = len(stream)
    while True:
        if pos == n:
            return recs, offs, 'eof'
        if n - pos < 4:
            return recs, offs, 'short_prefix'
        (ln,) = struct.unpack('>I', stream[pos:pos + 4])
        if ln == 0:
            return recs, offs, 'terminator'
        if ln > max_len:
            return recs, offs, 'too_long'
        if n - pos - 4 < ln:
            return recs, offs, 'short_record'
        offs.append(pos)
        recs.append(stream[pos + 4:pos + 4 + ln])
        pos += 4 + ln


def selfcheck():
    f = frame([b'abc', b'de'])
    assert f == b'\x00\x00\x00\x03abc\x00\x00\x00\x02de\x00\x00\x00\x00'
    assert parse_prefix(f)[0] == [b'abc', b'de'] and parse_prefix(f)[2] == 'terminator'
    assert parse_prefix(f[:8])[0] == [b'abc'] and parse_prefix(f[:8])[2] == 'short_prefix'
    assert parse_prefix(f[:12])[2] == 'short_record'
