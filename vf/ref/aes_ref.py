"""AES-128/192/256 (ECB) from FIPS 197. The S-box is computed (multiplicative inverse in GF(2^8) + affine map),
not typed in."""


def _xtime(a):
    a <<= 1
    if a & 0x100:
        a ^= 0x11b
    return a & 0xff


def _mul(a, b):
    r = 0
    while b:
        if b & 1:
            r ^= a
        a = _xtime(a)
        b >>= 1
    return r


def _build_sbox():
    inv = [0] * 256
    for a in range(1, 256):
        for b in range(1, 256):
            if _mul(a, b) == 1:
                inv[a] = b
                break
    sbox = [0] * 256
    for a in range(256):
        x = inv[a]
        y = x
        for _ in range(4):
            x = ((x << 1) | (x >> 7)) & 0xff
            y ^= x
        sbox[a] = y ^ 0x63
    isbox = [0] * 256
    for a, s in enumerate(sbox):
        isbox[s] = a
    return sbox, isbox


SBOX, ISBOX = _build_sbox()


def _expand(key):
    nk = len(key) // 4
    if nk not in (4, 6, 8):
        raise ValueError('AES key must be 16, 24 or 32 bytes')
    nr = nk + 6
    w = [list(key[4 * i:4 * i + 4]) for i in range(nk)]
    rcon = 1
    for i in range(nk, 4 * (nr + 1)):
        t = list(w[i - 1])
        if i % nk == 0:
            t = t[1:] + t[:1]
            t = [SBOX[b] for b in t]
            t[0] ^= rcon
            rcon = _xtime(rcon)
        elif nk > 6 and i % nk == 4:
            t = [SBOX[b] for b in t]
        w.append([a ^ b for a, b in zip(w[i - nk], t)])
    return [sum((w[4 * r + c] for c in range(4)), []) for r in range(nr + 1)], nr


def _add(state, rk):
    return [a ^ b for a, b in zip(state, rk)]


def _shift_rows(s, inv=False):
    out = [0] * 16
    for c in range(4):
        for r in range(4):
            src = (c + (-r if inv else r)) % 4
            out[4 * c + r] = s[4 * src + r]
    return out


def _mix_columns(s, inv=False):
    m = (14, 11, 13, 9) if inv else (2, 3, 1, 1)
    out = [0] * 16
    for c in range(4):
        col = s[4 * c:4 * c + 4]
        for r in range(4):
            out[4 * c + r] = (_mul(col[r], m[0]) ^ _mul(col[(r + 1) % 4], m[1]) ^
                              _mul(col[(r + 2) % 4], m[2]) ^ _mul(col[(r + 3) % 4], m[3]))
    return out


def encrypt_block(key, block):
    rks, nr = _expand(bytes(key))
    s = _add(list(block), rks[0])
    for r in range(1, nr):
        s = _add(_mix_columns(_shift_rows([SBOX[b] for b in s])), rks[r])
    s = _add(_shift_rows([SBOX[b] for b in s]), rks[nr])
    return bytes(s)


def decrypt_block(key, block):
    rks, nr = _expand(bytes(key))
    s = _add(list(block), rks[nr])
    for r in range(nr - 1, 0, -1):
        s = [ISBOX[b] for b in _shift_rows(s, inv=True)]
        s = _mix_columns(_add(s, rks[r]), inv=True)
    s = [ISBOX[b] for b in _shift_rows(s, inv=True)]
    return bytes(_add(s, rks[0]))


def ecb_encrypt(key, data):
    if len(data) % 16:
        raise ValueError('data not a multiple of 16 bytes')
    return b''.join(encrypt_block(key, data[i:i + 16]) for i in range(0, len(data), 16))


def ecb_decrypt(key, data):
    return b''.join(decrypt_block(key, data[i:i + 16]) for i in range(0, len(data), 16))


def selfcheck():
    h = bytes.fromhex
    pt = h('00112233445566778899aabbccddeeff')
    # FIPS 197 appendix C
    assert encrypt_block(h('000102030405060708090a0b0c0d0e0f'), pt) == h('69c4e0d86a7b0430d8cdb78070b4c55a')
    assert encrypt_block(h('000102030405060708090a0b0c0d0e0f1011121314151617'), pt) == \
        h('dda97ca4864cdfe06eaf70a0ec0d7191')
    assert encrypt_block(h('000102030405060708090a0b0c0d0e0f101112131415161718191a1b1c1d1e1f'), pt) == \
        h('8ea2b7ca516745bfeafc49904b496089')
    assert decrypt_block(h('000102030405060708090a0b0c0d0e0f'), h('69c4e0d86a7b0430d8cdb78070b4c55a')) == pt
    # FIPS 197 appendix B
    assert encrypt_block(h('2b7e151628aed2a6abf7158809cf4f3c'), h('3243f6a8885a308d313198a2e0370734')) == \
        h('3925841d02dc09fbdc118597196a0b32')
    assert SBOX[0] == 0x63 and SBOX[0x53] == 0xed
