"""DES / Triple-DES (ECB) from FIPS 46-3, written from the standard's tables. Slow and plain on purpose."""

IP = [58, 50, 42, 34, 26, 18, 10, 2, 60, 52, 44, 36, 28, 20, 12, 4, 62, 54, 46, 38, 30, 22, 14, 6,
      64, 56, 48, 40, 32, 24, 16, 8, 57, 49, 41, 33, 25, 17, 9, 1, 59, 51, 43, 35, 27, 19, 11, 3,
      61, 53, 45, 37, 29, 21, 13, 5, 63, 55, 47, 39, 31, 23, 15, 7]
FP = [40, 8, 48, 16, 56, 24, 64, 32, 39, 7, 47, 15, 55, 23, 63, 31, 38, 6, 46, 14, 54, 22, 62, 30,
      37, 5, 45, 13, 53, 21, 61, 29, 36, 4, 44, 12, 52, 20, 60, 28, 35, 3, 43, 11, 51, 19, 59, 27,
      34, 2, 42, 10, 50, 18, 58, 26, 33, 1, 41, 9, 49, 17, 57, 25]
E = [32, 1, 2, 3, 4, 5, 4, 5, 6, 7, 8, 9, 8, 9, 10, 11, 12, 13, 12, 13, 14, 15, 16, 17,
     16, 17, 18, 19, 20, 21, 20, 21, 22, 23, 24, 25, 24, 25, 26, 27, 28, 29, 28, 29, 30, 31, 32, 1]
P = [16, 7, 20, 21, 29, 12, 28, 17, 1, 15, 23, 26, 5, 18, 31, 10, 2, 8, 24, 14, 32, 27, 3, 9,
     19, 13, 30, 6, 22, 11, 4, 25]
PC1 = [57, 49, 41, 33, 25, 17, 9, 1, 58, 50, 42, 34, 26, 18, 10, 2, 59, 51, 43, 35, 27, 19, 11, 3, 60, 52, 44, 36,
       63, 55, 47, 39, 31, 23, 15, 7, 62, 54, 46, 38, 30, 22, 14, 6, 61, 53, 45, 37, 29, 21, 13, 5, 28, 20, 12, 4]
PC2 = [14, 17, 11, 24, 1, 5, 3, 28, 15, 6, 21, 10, 23, 19, 12, 4, 26, 8, 16, 7, 27, 20, 13, 2,
       41, 52, 31, 37, 47, 55, 30, 40, 51, 45, 33, 48, 44, 49, 39, 56, 34, 53, 46, 42, 50, 36, 29, 32]
SHIFTS = [1, 1, 2, 2, 2, 2, 2, 2, 1, 2, 2, 2, 2, 2, 2, 1]
SBOX = [
    [[14, 4, 13, 1, 2, 15, 11, 8, 3, 10, 6, 12, 5, 9, 0, 7], [0, 15, 7, 4, 14, 2, 13, 1, 10, 6, 12, 11, 9, 5, 3, 8],
     [4, 1, 14, 8, 13, 6, 2, 11, 15, 12, 9, 7, 3, 10, 5, 0], [15, 12, 8, 2, 4, 9, 1, 7, 5, 11, 3, 14, 10, 0, 6, 13]],
    [[15, 1, 8, 14, 6, 11, 3, 4, 9, 7, 2, 13, 12, 0, 5, 10], [3, 13, 4, 7, 15, 2, 8, 14, 12, 0, 1, 10, 6, 9, 11, 5],
     [0, 14, 7, 11, 10, 4, 13, 1, 5, 8, 12, 6, 9, 3, 2, 15], [13, 8, 10, 1, 3, 15, 4, 2, 11, 6, 7, 12, 0, 5, 14, 9]],
    [[10, 0, 9, 14, 6, 3, 15, 5, 1, 13, 12, 7, 11, 4, 2, 8], [13, 7, 0, 9, 3, 4, 6, 10, 2, 8, 5, 14, 12, 11, 15, 1],
     [13, 6, 4, 9, 8, 15, 3, 0, 11, 1, 2, 12, 5, 10, 14, 7], [1, 10, 13, 0, 6, 9, 8, 7, 4, 15, 14, 3, 11, 5, 2, 12]],
    [[7, 13, 14, 3, 0, 6, 9, 10, 1, 2, 8, 5, 11, 12, 4, 15], [13, 8, 11, 5, 6, 15, 0, 3, 4, 7, 2, 12, 1, 10, 14, 9],
     [10, 6, 9, 0, 12, 11, 7, 13, 15, 1, 3, 14, 5, 2, 8, 4], [3, 15, 0, 6, 10, 1, 13, 8, 9, 4, 5, 11, 12, 7, 2, 14]],
    [[2, 12, 4, 1, 7, 10, 11, 6, 8, 5, 3, 15, 13, 0, 14, 9], [14, 11, 2, 12, 4, 7, 13, 1, 5, 0, 15, 10, 3, 9, 8, 6],
     [4, 2, 1, 11, 10, 13, 7, 8, 15, 9, 12, 5, 6, 3, 0, 14], [11, 8, 12, 7, 1, 14, 2, 13, 6, 15, 0, 9, 10, 4, 5, 3]],
    [[12, 1, 10, 15, 9, 2, 6, 8, 0, 13, 3, 4, 14, 7, 5, 11], [10, 15, 4, 2, 7, 12, 9, 5, 6, 1, 13, 14, 0, 11, 3, 8],
     [9, 14, 15, 5, 2, 8, 12, 3, 7, 0, 4, 10, 1, 13, 11, 6], [4, 3, 2, 12, 9, 5, 15, 10, 11, 14, 1, 7, 6, 0, 8, 13]],
    [[4, 11, 2, 14, 15, 0, 8, 13, 3, 12, 9, 7, 5, 10, 6, 1], [13, 0, 11, 7, 4, 9, 1, 10, 14, 3, 5, 12, 2, 15, 8, 6],
     [1, 4, 11, 13, 12, 3, 7, 14, 10, 15, 6, 8, 0, 5, 9, 2], [6, 11, 13, 8, 1, 4, 10, 7, 9, 5, 0, 15, 14, 2, 3, 12]],
    [[13, 2, 8, 4, 6, 15, 11, 1, 10, 9, 3, 14, 5, 0, 12, 7], [1, 15, 13, 8, 10, 3, 7, 4, 12, 5, 6, 11, 0, 14, 9, 2],
     [7, 11, 4, 1, 9, 12, 14, 2, 0, 6, 10, 13, 15, 3, 5, 8], [2, 1, 14, 7, 4, 10, 8, 13, 15, 12, 9, 0, 3, 5, 6, 11]],
]


def _permute(value, table, width):
    out = 0
    for pos in table:
        out = (out << 1) | ((value >> (width - pos)) & 1)
    return out


_KS_CACHE = {}


def _subkeys(key8):
    if key8 in _KS_CACHE:
        return _KS_CACHE[key8]
    k = _permute(int.from_bytes(key8, 'big'), PC1, 64)
    c, d = k >> 28, k & 0xfffffff
    ks = []
    for s in SHIFTS:
        c = ((c << s) | (c >> (28 - s))) & 0xfffffff
        d = ((d << s) | (d >> (28 - s))) & 0xfffffff
        ks.append(_permute((c << 28) | d, PC2, 56))
    if len(_KS_CACHE) > 4096:
        _KS_CACHE.clear()
    _KS_CACHE[key8] = ks
    return ks


def _f(r, k):
    x = _permute(r, E, 32) ^ k
    out = 0
    for i in range(8):
        six = (x >> (42 - 6 * i)) & 0x3f
        row = ((six >> 4) & 2) | (six & 1)
        col = (six >> 1) & 0xf
        out = (out << 4) | SBOX[i][row][col]
    return _permute(out, P, 32)


def des_block(block8, key8, decrypt=False):
    ks = _subkeys(bytes(key8))
    if decrypt:
        ks = ks[::-1]
    x = _permute(int.from_bytes(block8, 'big'), IP, 64)
    l, r = x >> 32, x & 0xffffffff
    for k in ks:
        l, r = r, l ^ _f(r, k)
    return _permute((r << 32) | l, FP, 64).to_bytes(8, 'big')


def _split3(key):
    key = bytes(key)
    if len(key) == 8:
        return key, key, key
    if len(key) == 16:
        return key[:8], key[8:], key[:8]
    if len(key) == 24:
        return key[:8], key[8:16], key[16:]
    raise ValueError('3DES key must be 8, 16 or 24 bytes')


def tdes_ecb_encrypt(key, data):
    k1, k2, k3 = _split3(key)
    if len(data) % 8:
        raise ValueError('data not a multiple of 8 bytes')
    out = b''
    for i in range(0, len(data), 8):
        b = des_block(data[i:i + 8], k1)
        b = des_block(b, k2, decrypt=True)
        out += des_block(b, k3)
    return out


def tdes_ecb_decrypt(key, data):
    k1, k2, k3 = _split3(key)
    out = b''
    for i in range(0, len(data), 8):
        b = des_block(data[i:i + 8], k3, decrypt=True)
        b = des_block(b, k2)
        out += des_block(b, k1, decrypt=True)
    return out


def selfcheck():
    h = bytes.fromhex
    # classic worked example (Stallings / Grabbe): key 133457799BBCDFF1, plaintext 0123456789ABCDEF
    assert des_block(h('0123456789ABCDEF'), h('133457799BBCDFF1')) == h('85E813540F0AB405')
    # NBS SP 500-20 variable plaintext / key known answers
    assert des_block(h('8000000000000000'), h('0101010101010101')) == h('95F8A5E5DD31D900')
    assert des_block(h('0000000000000000'), h('8001010101010101')) == h('95A8D72813DAA94D')
    assert des_block(h('0000000000000000'), h('0101010101010101')) == h('8CA64DE9C1B123A7')
    assert des_block(h('95F8A5E5DD31D900'), h('0101010101010101'), decrypt=True) == h('8000000000000000')
    # NIST SP 800-67 style triple-DES example (three independent keys)
    k = h('0123456789ABCDEF23456789ABCDEF01456789ABCDEF0123')
    pt = b'The qufck brown fox jump'
    ct = h('A826FD8CE53B855FCCE21C8112256FE668D5C05DD9B6B900')
    assert tdes_ecb_encrypt(k, pt) == ct and tdes_ecb_decrypt(k, ct) == pt
