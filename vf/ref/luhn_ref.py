"""Luhn mod-10, written from the ISO/IEC 7812-1 description (double every second digit from the right)."""


def check_digit(payload_digits):
    """payload_digits: iterable of ints (without check digit). Returns the int check digit."""
    total = 0
    double = True                      # the digit immediately left of the check digit is doubled
    for d in reversed(list(payload_digits)):
        if double:
            d = d * 2
            if d > 9:
                d -= 9
        total += d
        double = not double
    return (10 - (total % 10)) % 10


def is_valid(digits):
    digits = list(digits)
    if not digits:
        return False
    return check_digit(digits[:-1]) == digits[-1]
