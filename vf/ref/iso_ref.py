"""
Reference ISO8583 codec, written from the documentation (cardutil.iso8583 module docstring, config.py field
documentation) - deliberately plain.  It defines only well-formed behaviour.

    encode(msg, cfg, encoding, hex_bitmap)      -> (bytes, structure map)      raises RefError if not representable
    decode(data, cfg, encoding, hex_bitmap)     -> dict                        (for reference-encoded messages)
    strict_decode(data, cfg, encoding, hex)     -> ('accept', dict) | ('reject', why) | ('dontcare', why)
    pds_pack(pds) / pds_unpack(text) / icc_walk(data)

Layout: MTI (4 characters, text encoding) + bitmap (16 raw bytes, or 32 lowercase hex characters) + elements in
ascending order.  FIXED text left-justified, space padded; numbers zero padded; LLVAR/LLLVAR = 2/3 decimal digits +
that many bytes; ICC field binary.
"""
import datetime
import decimal
import re


class RefError(Exception):
    pass


CARRIER_CAP = 999


# ---------------------------------------------------------------------------------------------------
# PDS

def pds_pack(pds):
    """pds: {tag int or 'PDSxxxx': value str} -> list of carrier strings: ascending tags, greedy fill,
    at most 999 characters per carrier, a sub-element never split; each as tag(4) length(3) value."""
    items = []
    for k, v in pds.items():
        tag = int(k[3:]) if isinstance(k, str) else int(k)
        if not 0 <= tag <= 9999:
            raise RefError('PDS tag out of range')
        if len(v) > 992:
            raise RefError('PDS value longer than 992')
        items.append((tag, v))
    items.sort()
    carriers = []
    cur = ''
    for tag, v in items:
        piece = '%04d%03d%s' % (tag, len(v), v)
        if cur and len(cur) + len(piece) > CARRIER_CAP:
            carriers.append(cur)
            cur = ''
        cur += piece
    if cur:
        carriers.append(cur)
    return carriers


def pds_unpack(text, strict=True):
    """-> {'PDSxxxx': value}; strict: tag and length are decimal digits and values tile the text exactly"""
    out = {}
    pos = 0
    while pos < len(text):
        tag = text[pos:pos + 4]
        ln = text[pos + 4:pos + 7]
        if len(tag) != 4 or len(ln) != 3 or not _plain_digits(ln) or (strict and not _plain_digits(tag)):
            raise RefError('malformed PDS header at %d' % pos)
        n = int(ln)
        val = text[pos + 7:pos + 7 + n]
        if len(val) != n:
            raise RefError('PDS value runs past the end of the carrier')
        out['PDS' + tag] = val
        pos += 7 + n
    return out


# ---------------------------------------------------------------------------------------------------
# ICC

TWO_BYTE_TAG_PREFIXES = (0x9f, 0x5f)


def icc_build(tlvs):
    """tlvs: list of (tag bytes, value bytes) -> field bytes"""
    out = bytearray()
    for tag, val in tlvs:
        if len(val) > 255:
            raise RefError('ICC value longer than 255')
        if not ((len(tag) == 1 and tag[0] not in TWO_BYTE_TAG_PREFIXES and tag[0] != 0) or
                (len(tag) == 2 and tag[0] in TWO_BYTE_TAG_PREFIXES)):
            raise RefError('ICC tag shape')
        out += tag + bytes([len(val)]) + val
    return bytes(out)


def icc_walk(data, strict=True):
    """-> dict with ICC_DATA (hex of the field) and TAGxxxx (upper-case hex tag -> lower-case hex value)"""
    out = {'ICC_DATA': data.hex()}
    pos = 0
    while pos < len(data):
        if data[pos] in TWO_BYTE_TAG_PREFIXES:
            tag = data[pos:pos + 2]
            pos += 2
            if len(tag) != 2:
                raise RefError('ICC two-byte tag cut')
        else:
            tag = data[pos:pos + 1]
            pos += 1
        if tag == b'\x00':
            break                      # documented: low-values tag ends processing
        if pos >= len(data):
            raise RefError('ICC tag without length')
        n = data[pos]
        val = data[pos + 1:pos + 1 + n]
        if len(val) != n:
            if strict:
                raise RefError('ICC value runs past the end of the field')
        out['TAG' + tag.hex().upper()] = val.hex()
        pos += 1 + n
    return out


# ---------------------------------------------------------------------------------------------------
# helpers

def _plain_digits(s):
    return len(s) > 0 and all(c in '0123456789' for c in s)


def prefix_len(bitcfg):
    t = bitcfg['field_type']
    return 2 if t == 'LLVAR' else 3 if t == 'LLLVAR' else 0


def codec_alphabet(encoding):
    """characters that encode to exactly one byte and decode back (computed, not assumed)"""
    chars = []
    for b in range(256):
        try:
            ch = bytes([b]).decode(encoding)
        except UnicodeDecodeError:
            continue
        if len(ch) != 1:
            continue
        try:
            if ch.encode(encoding) != bytes([b]):
                continue
        except UnicodeEncodeError:
            continue
        chars.append(ch)
    return chars


def text_of(bitcfg, value):
    """the text (or bytes) rendering of a python value for this field, before padding"""
    t = bitcfg.get('field_python_type')
    width = bitcfg.get('field_length', 0) or 0
    if t in ('int', 'long'):
        iv = int(value)
        if iv < 0:
            raise RefError('negative number')
        s = str(iv).rjust(width if not prefix_len(bitcfg) else 0, '0')
        return s
    if t == 'decimal':
        dv = decimal.Decimal(value)
        if dv < 0 or not dv.is_finite():
            raise RefError('negative / non-finite decimal')
        s = format(dv, 'f').rjust(width, '0')
        return s
    if t == 'datetime':
        if not isinstance(value, datetime.datetime):
            raise RefError('reference takes datetime objects only')
        return value.strftime(bitcfg.get('field_date_format', '%y%m%d'))
    return value


def render_field(bitcfg, value, encoding):
    """-> (prefix bytes, data bytes) for one element"""
    v = text_of(bitcfg, value)
    pl = prefix_len(bitcfg)
    if isinstance(v, (bytes, bytearray)):
        data = bytes(v)
    else:
        if pl == 0:
            width = bitcfg['field_length']
            if len(v) > width:
                raise RefError('value wider than the fixed field')
            v = v.ljust(width, ' ')
        data = v.encode(encoding)
        if len(data) != len(v):
            raise RefError('multi-byte encoding')
    if pl:
        if len(data) > 10 ** pl - 1:
            raise RefError('value longer than the %d-digit prefix can count' % pl)
        prefix = (('%0' + str(pl) + 'd') % len(data)).encode(encoding)
        return prefix, data
    return b'', data


def pds_carrier_bits(cfg):
    return sorted(int(k) for k in cfg if cfg[k].get('field_processor') == 'PDS')


def present(v):
    return bool(v) or (v == 0 and v is not False and not isinstance(v, (str, bytes)))


def encode(msg, cfg, encoding='latin_1', hex_bitmap=False):
    """-> (bytes, structure) ; structure = list of (name, start, end)"""
    elems = {}
    pds = {k: v for k, v in msg.items() if k.startswith('PDS')}
    for k, v in msg.items():
        if k.startswith('DE') and k[2:].isdigit():
            n = int(k[2:])
            if not 2 <= n <= 127:
                raise RefError('element out of range: ' + k)
            if present(v):
                elems[n] = v
    if pds:
        carriers = pds_pack(pds)
        bits = pds_carrier_bits(cfg)
        if len(carriers) > len(bits):
            raise RefError('more PDS data than carrier elements')
        for bit, text in zip(bits, carriers):
            if bit in elems:
                raise RefError('explicit carrier value together with PDS keys')
            elems[bit] = text
    mti = msg['MTI']
    if len(mti) != 4 or not _plain_digits(mti):
        raise RefError('MTI')
    bitmap = bytearray(16)
    bitmap[0] |= 0x80
    for n in elems:
        bitmap[(n - 1) // 8] |= 0x80 >> ((n - 1) % 8)
    out = bytearray(mti.encode(encoding))
    struct = [('mti', 0, 4)]
    bm = bytes(bitmap).hex().encode('ascii') if hex_bitmap else bytes(bitmap)
    struct.append(('bitmap', len(out), len(out) + len(bm)))
    out += bm
    for n in sorted(elems):
        if str(n) not in cfg:
            raise RefError('no configuration for element %d' % n)
        prefix, data = render_field(cfg[str(n)], elems[n], encoding)
        if prefix:
            struct.append(('DE%d.prefix' % n, len(out), len(out) + len(prefix)))
            out += prefix
        struct.append(('DE%d.data' % n, len(out), len(out) + len(data)))
        out += data
    return bytes(out), struct


def substructure(data, struct, cfg, encoding):
    """extend a structure map with the internals of PDS carriers (tag / len / value) and ICC fields (tag / len /
    value) of a reference-encoded message"""
    out = list(struct)
    for name, s, e in struct:
        if not name.endswith('.data'):
            continue
        bit = name[2:].split('.')[0]
        proc = cfg[bit].get('field_processor')
        if proc == 'PDS':
            pos = s
            i = 0
            while pos + 7 <= e:
                n = int(data[pos + 4:pos + 7].decode(encoding))
                out.append(('%s.pds%d.tag' % (name[:-5], i), pos, pos + 4))
                out.append(('%s.pds%d.len' % (name[:-5], i), pos + 4, pos + 7))
                out.append(('%s.pds%d.value' % (name[:-5], i), pos + 7, pos + 7 + n))
                pos += 7 + n
                i += 1
        elif proc == 'ICC':
            pos = s
            i = 0
            while pos < e:
                tl = 2 if data[pos] in TWO_BYTE_TAG_PREFIXES else 1
                n = data[pos + tl]
                out.append(('%s.icc%d.tag' % (name[:-5], i), pos, pos + tl))
                out.append(('%s.icc%d.len' % (name[:-5], i), pos + tl, pos + tl + 1))
                out.append(('%s.icc%d.value' % (name[:-5], i), pos + tl + 1, pos + tl + 1 + n))
                pos += tl + 1 + n
                i += 1
    return out


# ---------------------------------------------------------------------------------------------------
# decoding

def mask_pan(s):
    if len(s) < 10:
        return None   # outside the statement (card numbers of 10 or more characters)
    return s[:6] + '*' * (len(s) - 10) + s[-4:]


def _convert(bitcfg, text, strict):
    """text -> python value; strict: ('ok', v) | ('reject', why) | ('dontcare', why)"""
    t = bitcfg.get('field_python_type')
    if t in ('int', 'long'):
        if _plain_digits(text):
            return 'ok', int(text)
        try:
            int(text)
        except ValueError:
            return 'reject', 'not a number'
        return 'dontcare', 'numeral that is not plain decimal digits'
    if t == 'decimal':
        if re.fullmatch(r'[0-9]+(\.[0-9]+)?', text):
            return 'ok', decimal.Decimal(text)
        try:
            decimal.Decimal(text)
        except decimal.InvalidOperation:
            return 'reject', 'not a decimal'
        return 'dontcare', 'decimal numeral in an unusual notation'
    if t == 'datetime':
        fmt = bitcfg.get('field_date_format', '%y%m%d')
        try:
            v = datetime.datetime.strptime(text, fmt)
        except ValueError:
            return 'reject', 'not a date in format ' + fmt
        if _plain_digits(text) and v.strftime(fmt) == text:
            return 'ok', v
        return 'dontcare', 'date numeral that strptime tolerates but is not canonical'
    return 'ok', text


def _walk(data, cfg, encoding, hex_bitmap, strict):
    """shared by decode / strict_decode. -> (verdict, dict or why)"""
    hdr = 36 if hex_bitmap else 20
    if len(data) < hdr:
        return 'reject', 'shorter than MTI + bitmap'
    try:
        mti = data[:4].decode(encoding)
    except UnicodeDecodeError:
        return 'reject', 'MTI not decodable'
    dontcare = None
    if not _plain_digits(mti):
        try:
            int(mti)
            dontcare = 'MTI numeral not plain digits'
        except ValueError:
            return 'reject', 'MTI not numeric'
    if hex_bitmap:
        raw = data[4:36]
        try:
            txt = raw.decode('ascii')
        except UnicodeDecodeError:
            return 'reject', 'hex bitmap not hex'
        if not re.fullmatch(r'[0-9a-fA-F]{32}', txt):
            return 'reject', 'hex bitmap not hex'
        if txt != txt.lower():
            dontcare = dontcare or 'upper-case hex bitmap'
        bitmap = bytes.fromhex(txt)
    else:
        bitmap = data[4:20]
    out = {'MTI': mti}
    pos = hdr
    for n in range(2, 129):
        if not bitmap[(n - 1) // 8] & (0x80 >> ((n - 1) % 8)):
            continue
        if n == 128:
            return 'dontcare', 'bit 128'
        bc = cfg.get(str(n))
        if not bc:
            return 'reject', 'no configuration for bit %d' % n
        pl = prefix_len(bc)
        if pl:
            praw = data[pos:pos + pl]
            if len(praw) != pl:
                return 'reject', 'length prefix of DE%d cut' % n
            try:
                ptxt = praw.decode(encoding)
            except UnicodeDecodeError:
                return 'reject', 'length prefix of DE%d not decodable' % n
            if not _plain_digits(ptxt):
                try:
                    iv = int(ptxt)
                except ValueError:
                    return 'reject', 'length prefix of DE%d not numeric' % n
                if iv < 0:
                    return 'reject', 'negative length for DE%d' % n
                return 'dontcare', 'length numeral of DE%d not plain digits' % n
            ln = int(ptxt)
        else:
            ln = bc['field_length']
        raw = data[pos + pl:pos + pl + ln]
        if len(raw) != ln:
            return 'reject', 'DE%d runs past the end of the message' % n
        pos += pl + ln
        proc = bc.get('field_processor')
        if proc == 'ICC':
            out['DE%d' % n] = raw
            try:
                out.update(icc_walk(raw, strict=True))
            except RefError as ex:
                return 'dontcare', 'ICC content: %s' % ex
            continue
        try:
            text = raw.decode(encoding)
        except UnicodeDecodeError:
            return 'reject', 'DE%d text not decodable' % n
        if proc == 'PAN':
            m = mask_pan(text)
            if m is None:
                return 'dontcare', 'PAN shorter than 10'
            text = m
        elif proc == 'PAN-PREFIX':
            text = text[:9]
        verdict, val = _convert(bc, text, strict)
        if verdict == 'reject':
            return 'reject', 'DE%d: %s' % (n, val)
        if verdict == 'dontcare':
            return 'dontcare', 'DE%d: %s' % (n, val)
        out['DE%d' % n] = val
        if proc == 'PDS':
            try:
                out.update(pds_unpack(text, strict=True))
            except RefError as ex:
                return 'dontcare', 'PDS content: %s' % ex
        elif proc == 'DE43':
            rx = bc.get('field_processor_config')
            if rx:
                m = re.match(rx, text)
                if m:
                    gd = m.groupdict()
                    if gd.get('DE43_POSTCODE'):
                        gd['DE43_POSTCODE'] = gd['DE43_POSTCODE'].rstrip()
                    out.update(gd)
    if pos != len(data):
        return 'reject', 'bytes left over after the last element'
    if dontcare:
        return 'dontcare', dontcare
    return 'accept', out


def strict_decode(data, cfg, encoding='latin_1', hex_bitmap=False):
    return _walk(data, cfg, encoding, hex_bitmap, True)


def decode(data, cfg, encoding='latin_1', hex_bitmap=False):
    verdict, res = _walk(data, cfg, encoding, hex_bitmap, True)
    if verdict != 'accept':
        raise RefError('reference decoder: %s (%s)' % (verdict, res))
    return res


# ---------------------------------------------------------------------------------------------------

def selfcheck():
    cfg = {'2': {'field_type': 'LLVAR', 'field_length': 0},
           '3': {'field_type': 'FIXED', 'field_length': 6},
           '4': {'field_type': 'FIXED', 'field_length': 12, 'field_python_type': 'long'},
           '48': {'field_type': 'LLLVAR', 'field_length': 0, 'field_processor': 'PDS'},
           '55': {'field_type': 'LLLVAR', 'field_length': 255, 'field_processor': 'ICC'},
           '62': {'field_type': 'LLLVAR', 'field_length': 0, 'field_processor': 'PDS'}}
    # the two documented examples
    b, st = encode({'MTI': '1144', 'DE2': '4444555566667777'}, cfg)
    assert b == b'1144' + bytes.fromhex('c0000000000000000000000000000000') + b'164444555566667777', b
    b, st = encode({'MTI': '1144', 'DE2': '4444555566667777'}, cfg, hex_bitmap=True)
    assert b == b'1144c0000000000000000000000000000000164444555566667777'
    b, st = encode({'MTI': '1144', 'DE2': '4444555566667777'}, cfg, encoding='cp500')
    assert b == (b'\xf1\xf1\xf4\xf4\xc0' + b'\x00' * 15 +
                 b'\xf1\xf6\xf4\xf4\xf4\xf4\xf5\xf5\xf5\xf5\xf6\xf6\xf6\xf6\xf7\xf7\xf7\xf7')
    msg = {'MTI': '1240', 'DE2': '12', 'DE3': 'ab', 'DE4': 7, 'PDS0001': 'x' * 990, 'PDS0002': '',
           'DE55': icc_build([(b'\x9f\x26', b'\x01\x02'), (b'\x82', b'')])}
    b, st = encode(msg, cfg)
    d = decode(b, cfg)
    assert d['DE2'] == '12' and d['DE3'] == 'ab    ' and d['DE4'] == 7
    assert d['PDS0001'] == 'x' * 990 and d['PDS0002'] == '' and d['DE48'].startswith('0001990') and \
        d['DE62'] == '0002000', d.get('DE62')
    assert d['TAG9F26'] == '0102' and d['TAG82'] == '' and d['ICC_DATA'] == '9f26020102' + '8200'
    assert strict_decode(b + b' ', cfg)[0] == 'reject'
    assert strict_decode(b[:-1], cfg)[0] == 'reject'
    assert pds_pack({'PDS0001': 'a' * 985, 'PDS0002': 'b' * 0}) == ['0001985' + 'a' * 985 + '0002000']
    assert len(pds_pack({'PDS0001': 'a' * 985, 'PDS0002': 'b'})) == 2
    for name, s, e in st:
        assert 0 <= s <= e <= len(b)
    assert len(codec_alphabet('latin_1')) == 256 and len(codec_alphabet('ascii')) == 128
