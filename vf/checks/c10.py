"""
C10 - A bad record is reported with its own record number and raw bytes.
E4: every file of n<=4 records x every position k x each fault kind x {VBS, 1014} x {latin_1, cp500}.
"""
import contextlib
import io

from vf import core, corpus
from vf.ref import blk_ref, iso_ref, vbs_ref

PROPERTY = 'C10'
LEVEL = 'fault_enumeration'

OVERSIZED = ['00001771', '40404040', 'ffffffff', '80000000', '00010000', '7fffffff', '00404040', 'f0f0f0f0']
KINDS = ['truncated', 'oversized_length'] + ['oversized_length:' + h for h in OVERSIZED[1:]] + ['bad_mti', 'unknown_bit', 'bad_field_length', 'bad_typed_value',
         'bad_pds', 'bad_icc', 'trailing_byte', 'negative_length']
FRAMING = tuple(['truncated', 'oversized_length'] + ['oversized_length:' + h for h in OVERSIZED[1:]])


def good_message(i):
    return {'MTI': '1%03d' % (240 + i), 'DE2': '5%015d' % (7919 * (i + 1)), 'DE3': '%06d' % i, 'DE4': 100 + i,
            'DE49': '036', 'PDS0023': 'T%d' % i, 'DE55': iso_ref.icc_build([(b'\x9f\x26', bytes([i] * 8)),
                                                                           (b'\x82', b'\x00')]),
            # runs of blanks and '@' (0x40 is the blank of the EBCDIC codecs, '@' in the ASCII family and the fill byte
            # of the 1014 blocking): a cut can leave the surviving bytes ending in any of them
            'DE72': 'record %d   @@  ' % i * (3 + i)}


def bad_record(kind, i, enc):
    """raw bytes of a record that cannot be decoded, built from the reference encoding of a good message"""
    cfg = corpus.cfg_of('PKG')
    data, st = iso_ref.encode(good_message(i), cfg, enc, False)
    st = iso_ref.substructure(data, st, cfg, enc)
    pos = {name: (s, e) for name, s, e in st}
    e_ = lambda t: t.encode(enc)   # noqa
    if kind == 'bad_mti':
        return e_('12A4') + data[4:]
    if kind == 'unknown_bit':
        b = bytearray(data)
        b[4] |= 0x02               # bit 7: not configured in the packaged configuration
        return bytes(b)
    if kind == 'bad_field_length':
        s, e = pos['DE2.prefix']
        return data[:s] + e_('1X') + data[e:]
    if kind == 'bad_typed_value':
        s, e = pos['DE4.data']
        return data[:s] + e_('12345678901A') + data[e:]
    if kind == 'bad_pds':
        s, e = pos['DE48.pds0.len']
        return data[:s] + e_('0X2') + data[e:]
    if kind == 'bad_icc':
        s, e = pos['DE55.data']
        ps, pe = pos['DE55.prefix']
        # ICC field that ends right after a tag: no length byte
        new = data[s:e] + b'\x9a'
        return data[:ps] + e_('%03d' % len(new)) + new + data[e:]
    if kind == 'trailing_byte':
        return data + e_(' ')
    if kind == 'negative_length':
        s, e = pos['DE2.prefix']
        return data[:s] + e_('-1') + data[e:]
    if kind.startswith('mut:'):
        _, p, v = kind.split(':')
        p, v = int(p), int(v)
        return data[:p] + bytes([v]) + data[p + 1:]
    raise core.Broken(kind)


def mutation_kinds(enc):
    """every structural byte of a good record x a 10-value alphabet (single deviation inside record k)"""
    cfg = corpus.cfg_of('PKG')
    data, st = iso_ref.encode(good_message(2), cfg, enc, False)
    st = iso_ref.substructure(data, st, cfg, enc)
    from vf.engine import faults
    out = []
    alph = sorted({c.encode(enc)[0] for c in '019-+ _A'} | {0x00, 0xff})
    numerals = set(faults.structural_positions(st, names=('prefix', 'len')))
    for p in faults.structural_positions(st):
        # every byte value in the length numerals (characters that pass for digits in one test and not in another
        # live above 0x7f), a 10-value alphabet elsewhere
        for v in (range(256) if p in numerals else alph):
            if v != data[p]:
                out.append('mut:%d:%d' % (p, v))
    return out


def build(case):
    """-> (file bytes, good dicts before k, raw bytes of record k as they sit in the stream, is framing fault)"""
    n, k, kind, enc, blocked = case['n'], case['k'], case['kind'], case['enc'], case['blocked']
    cfg = corpus.cfg_of('PKG')
    recs = []
    for i in range(1, n + 1):
        if i == k and kind.split('@')[0] not in FRAMING:
            recs.append(bad_record(kind, i if not kind.startswith('mut:') else 2, enc))
        else:
            recs.append(iso_ref.encode(good_message(i), cfg, enc, False)[0])
    stream = vbs_ref.frame(recs)
    offs = []
    p = 0
    for r in recs:
        offs.append(p)
        p += 4 + len(r)
    raw_k = stream[offs[k - 1]:offs[k - 1] + 4 + len(recs[k - 1])]
    if kind.startswith('truncated'):
        # 'truncated' = cut in the middle of the record data; 'truncated@j' = cut j bytes into the record (prefix incl.)
        j = int(kind.split('@')[1]) if '@' in kind else 4 + max(1, len(recs[k - 1]) // 2)
        cut = offs[k - 1] + j
        raw_k = stream[offs[k - 1]:cut]
        if blocked:
            # cut the blocked FILE at the corresponding byte (blocking a cut stream would pad it with fill)
            return blk_ref.block(stream)[:cut + 2 * (cut // 1012)], recs, raw_k
        stream = stream[:cut]
    elif kind.startswith('oversized_length'):
        big = bytes.fromhex(kind.split(':')[1]) if ':' in kind else (6001).to_bytes(4, 'big')
        stream = stream[:offs[k - 1]] + big + stream[offs[k - 1] + 4:]
        raw_k = stream[offs[k - 1]:]
    data = blk_ref.block(stream) if blocked else stream
    return data, recs, raw_k


def check_case(case, acc):
    from cardutil import mciipm, iso8583
    from cardutil.cli import print_exception_details
    data, recs, raw_k = build(case)
    k, kind, enc = case['k'], case['kind'], case['enc']
    acc.case((case['n'], k, kind, enc, case['blocked'], case.get('style')), nontrivial=True,
             outcome=kind.split('@')[0] if not kind.startswith('mut:') else 'mutation')
    from vf import fileobjs
    src, _done = fileobjs.reader(('bytesio', 'pipe', 'minimal', 'smallbuf', 'zip')[len(data) % 5], data)
    rd = mciipm.IpmReader(src, encoding=enc, blocked=case['blocked'])
    got = []
    err = None
    style = case.get('style', 'for')
    try:
        if style == 'for':
            for rec in rd:
                got.append(rec)
                if len(got) > case['n']:
                    break
        elif style == 'next_then_for':          # header = next(reader); for rec in reader: ...
            got.append(next(rd))
            for rec in rd:
                got.append(rec)
                if len(got) > case['n']:
                    break
        elif style == 'next_only':
            while len(got) <= case['n']:
                got.append(next(rd))
        elif style == 'iter_each':              # a fresh iter() before every record
            while len(got) <= case['n']:
                got.append(next(iter(rd)))
    except StopIteration:
        pass
    except mciipm.MciIpmDataError as ex:
        err = ex
    except Exception as ex:
        acc.viol('c10.foreign_exception.%s' % ('mutation' if kind.startswith('mut:') else kind.split(':')[0]), case,
                 repr(ex), 'MciIpmDataError for record %d' % k)
        return
    if err is None and kind.startswith('mut:'):
        return          # the single-byte change left a decodable record (or one C08 judges): nothing to report
    if kind.startswith('mut:'):
        kind = 'mutation'
    kind = kind.split(':')[0].split('@')[0]
    if err is None:
        acc.viol('c10.no_error.%s' % kind, case, 'iteration ended after %d records' % len(got),
                 'MciIpmDataError for record %d' % k)
        return
    if len(got) != k - 1:
        acc.viol('c10.records_before.%s' % ('framing' if kind in FRAMING else 'message'), case,
                 '%d records delivered before the error' % len(got), '%d' % (k - 1))
        return
    cfg = corpus.cfg_of('PKG')
    for i, rec in enumerate(got):
        want = iso_ref.decode(recs[i], cfg, enc, False)
        if rec != want:
            acc.viol('c10.records_before.altered', case, 'record %d differs' % (i + 1), 'unchanged records')
            return
    if err.record_number != k:
        acc.viol('c10.record_number.%s' % ('framing' if kind in FRAMING else 'message'), case,
                 'record_number=%r' % err.record_number, 'record_number=%d' % k,
                 'fault kind %s in record %d of %d' % (kind, k, case['n']))
        return
    ctx = err.binary_context_data
    if kind == 'truncated' and len(raw_k) > 4:
        # a record cut inside its data: "the bytes that could be read of it" are all the surviving bytes of the record
        ok = isinstance(ctx, (bytes, bytearray)) and bytes(ctx) == raw_k
    elif kind in FRAMING:
        ok = isinstance(ctx, (bytes, bytearray)) and len(ctx) > 0 and raw_k.startswith(bytes(ctx))
    else:
        ok = (ctx == raw_k)
    if not ok:
        acc.viol('c10.context_data.%s' % ('framing' if kind in FRAMING else 'message'), case,
                 core.short(ctx if ctx is None else bytes(ctx).hex(), 120), core.short(raw_k.hex(), 120),
                 'raw bytes of record %d including its length prefix' % k)
        return
    buf = io.StringIO()
    with contextlib.redirect_stdout(buf):
        print_exception_details(err)
    if ('Error detected in record %d\n' % k) not in buf.getvalue():
        acc.viol('c10.operator_message', case, core.short(buf.getvalue(), 200), 'Error detected in record %d' % k)


def enumerate_cases(tier, seed):
    cases = []
    nmax = 4 if tier == 'quick' else 6
    for n in range(1, nmax + 1):
        for k in range(1, n + 1):
            for kind in KINDS:
                if kind == 'truncated' and k != n:
                    continue
                for enc in ('latin_1', 'cp500'):
                    for blocked in (False, True):
                        cases.append({'n': n, 'k': k, 'kind': kind, 'enc': enc, 'blocked': blocked})
                        if kind in ('truncated', 'oversized_length', 'bad_mti', 'bad_pds', 'trailing_byte'):
                            for style in ('next_then_for', 'next_only', 'iter_each'):
                                cases.append({'n': n, 'k': k, 'kind': kind, 'enc': enc, 'blocked': blocked,
                                              'style': style})
    # the last record cut at EVERY byte (the surviving bytes end in whatever the record holds there: blanks, fill-like
    # bytes, zeros ...), blocked and unblocked
    cfg = corpus.cfg_of('PKG')
    for enc in ('latin_1', 'cp500'):
        for n in (1, 3):
            size = 4 + len(iso_ref.encode(good_message(n), cfg, enc, False)[0])
            for j in range(5, size):
                for blocked in (False, True):
                    cases.append({'n': n, 'k': n, 'kind': 'truncated@%d' % j, 'enc': enc, 'blocked': blocked})
    for enc in ('latin_1', 'cp500'):
        for kind in mutation_kinds(enc):
            for k in (1, 2, 3):
                for blocked in ((False, True) if tier == 'thorough' else (bool((k + len(kind)) % 2),)):
                    cases.append({'n': 3, 'k': k, 'kind': kind, 'enc': enc, 'blocked': blocked})
    return cases


def tasks(tier, seed):
    return [{'cases': ch} for ch in core.chunks(enumerate_cases(tier, seed), 32)]


def run_task(task):
    acc = core.Acc()
    for i, case in enumerate(task['cases']):
        if i == 0:
            acc.sample(case)
        check_case(case, acc)
    return acc


def describe(tier, seed):
    return {
        'rule': 'files of n = 1..%d records x every faulty position k x fault kinds %s (truncated only for k = n) x '
                '{VBS, 1014} x {latin_1, cp500}, read with a for loop and (five kinds) with next() followed by a for loop, '
                'next() only, and a fresh iter() before every record; plus, in 3-record files, every structural byte (MTI, bitmap, prefixes, PDS '
                'tag/length, TLV tag/length) of record k x a 10-value alphabet (every byte value in the length numerals) '
                'for k = 1..3 (whenever reading then '
                'fails, it must fail at k); records have distinct content. Oracle: exactly k-1 records are '
                'delivered and equal the reference decode; then MciIpmDataError with record_number == k and '
                'binary_context_data == length prefix + data of record k (framing faults: a non-empty prefix of '
                'those bytes); print_exception_details prints "Error detected in record k". Distinct by (n, k, kind, '
                'codec, format).' % (4 if tier == 'quick' else 6, KINDS),
        'assumptions': ['good records are reference-encoded; bad records are single-point corruptions of them'],
        'bounds': {'n_max': 4 if tier == 'quick' else 6},
        'exhaustive': True,
    }


def replay_case(case):
    acc = core.Acc()
    check_case(case, acc)
    return acc


def selfcheck():
    iso_ref.selfcheck()
