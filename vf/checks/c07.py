"""
C07 - Decoding never hangs or crashes: any bytes give a result or the library error.
E4: fault enumeration over a corpus of reference-encoded messages and files (0, 1 and 2 deviations) plus the
closure of all short strings after a single-bit header, every case under a CPU-time watchdog.
"""
import contextlib
import io
import itertools
import os
import shutil
import sys
import tempfile

from vf import core, corpus, isogen
from vf.engine import faults
from vf.ref import blk_ref, iso_ref, vbs_ref

PROPERTY = 'C07'
LEVEL = 'fault_enumeration'

ENCS = ['latin_1', 'cp500', 'ascii']
PAIR_ALPHABET_TXT = ['0', '1', '7', '9', '-', '+', ' ', '_', 'A']
PAIR_ALPHABET_RAW = [0x00, 0xff]
CLOSURE_SYMBOLS = ['0', '1', '9', '-', ' ', 'A', 0x00, 0xff]
CPU_LIMIT = 3.0


def symbol_bytes(sym, enc):
    return bytes([sym]) if isinstance(sym, int) else sym.encode(enc)


def classify_loads(data, cfg, enc, hx):
    """-> outcome label; labels starting with 'BAD' are violations"""
    from cardutil import iso8583, CardutilError
    status, val = faults.guarded(lambda: iso8583.loads(data, encoding=enc, iso_config=cfg, hex_bitmap=hx), CPU_LIMIT)
    if status == 'hang':
        return 'BAD.hang'
    if status == 'exc':
        if isinstance(val, CardutilError):
            return 'library_error'
        return 'BAD.exception.' + type(val).__name__ + '@' + site_of(val)
    if not isinstance(val, dict):
        return 'BAD.returned.' + type(val).__name__
    return 'dict'


def site_of(ex):
    """innermost cardutil function on the traceback: the failing call site"""
    tb = ex.__traceback__
    site = 'unknown'
    while tb is not None:
        fn = tb.tb_frame.f_code.co_filename
        if os.sep + 'cardutil' + os.sep in fn:
            site = tb.tb_frame.f_code.co_name
        tb = tb.tb_next
    return site


def read_file(data, kind, blocked, enc):
    from cardutil import mciipm

    def run():
        f = io.BytesIO(data)
        rd = mciipm.VbsReader(f, blocked=blocked) if kind == 'vbs' else \
            mciipm.IpmReader(f, encoding=enc, blocked=blocked)
        n = 0
        try:
            for _ in rd:
                n += 1
                if n > 20000:
                    return 'BAD.endless_records'
        except mciipm.MciIpmDataError:
            return 'library_error'
        return 'stop'
    status, val = faults.guarded(run, CPU_LIMIT)
    if status == 'hang':
        return 'BAD.hang'
    if status == 'exc':
        return 'BAD.exception.' + type(val).__name__ + '@' + site_of(val)
    return val


def where_of(struct, pos):
    best = None
    for name, s, e in struct:
        if s <= pos < e:
            best = name
    return best or 'outside'


def part_of(name):
    leaf = name.split('.')
    if len(leaf) >= 3:
        return leaf[1].rstrip('0123456789') + '.' + leaf[2]
    if len(leaf) == 2:
        return 'element.' + leaf[1]
    return leaf[0]


def check_msg_case(case, acc, base=None):
    """case: {'msg': name, 'enc':, 'hex':, 'mut': [...]}; with 'via': 'reader' the mutated message is the middle record
    of a three-record file read through IpmReader (whatever the reader itself does with a decoded record - counting,
    checking administrative messages - is then part of what must not crash)"""
    if base is None:
        base = corpus.encoded(case['msg'], case['enc'], case['hex'])
    data, struct, cfg, cfgname = base
    mut = case['mut']
    bad = faults.apply(data, tuple(mut))
    if case.get('via') == 'reader':
        blocked = bool(len(bad) % 2)
        stream = vbs_ref.frame([data, bad, data])
        out = read_file(blk_ref.block(stream) if blocked else stream, 'ipm', blocked, case['enc'])
        acc.case((case['msg'], case['enc'], 'reader', repr(mut)), nontrivial=mut[0] != 'none', outcome='reader:' + out)
        if out.startswith('BAD'):
            pos = mut[1] if len(mut) > 1 and isinstance(mut[1], int) else 0
            acc.viol('c07.reader_msg.%s' % out[4:], case, out, 'records then stop or MciIpmDataError',
                     '%s of %s in record 2 of 3' % (list(mut), where_of(struct, min(pos, len(data) - 1))))
        return
    out = classify_loads(bad, cfg, case['enc'], case['hex'])
    acc.case((case['msg'], case['enc'], case['hex'], repr(mut)), nontrivial=mut[0] != 'none', outcome=out)
    if out.startswith('BAD'):
        pos = mut[1] if len(mut) > 1 and isinstance(mut[1], int) else 0
        acc.viol('c07.loads.%s' % out[4:], case, out, 'dict or Iso8583DataError',
                 '%s of %s; message bytes %s' % (list(mut), where_of(struct, min(pos, len(data) - 1)), bad.hex()[:240]))


def msg_mutations(data, struct, tier, enc):
    """the enumerated mutation set of one corpus message"""
    yield ('none',)
    big = len(data) > 1500      # the maximum-length message: structure fully, content thinly
    for n in range(0, len(data) + 1, 13 if big else 1):
        yield ('trunc', n)
    structural = faults.structural_positions(struct)
    if tier == 'thorough' and not big:
        positions = range(len(data))
    else:
        positions = sorted(set(structural) | set(range(0, len(data), 97 if big else 7)))
    for m, _ in faults.substitutions(data, positions):
        yield m
    if big:
        near = sorted({q for p in structural for q in (p - 1, p, p + 1) if 0 <= q < len(data)})
        for p in near:
            yield ('del', p)
            yield ('ins', p, 0x30)
    else:
        for m, _ in faults.insert_delete(data):
            yield m
    # two deviations: pairs of structural positions (prefixes, sub-lengths, bitmap, TLV lengths)
    spos = faults.structural_positions(struct, names=('prefix', 'len', 'bitmap') if not big else ('prefix',))
    if tier == 'quick':
        bm = [p for p in spos if where_of(struct, p) == 'bitmap']
        spos = [p for p in spos if p not in bm] + bm[:4]
    alph = sorted(set(symbol_bytes(s, enc)[0] for s in PAIR_ALPHABET_TXT) | set(PAIR_ALPHABET_RAW))
    pair_alph = alph if not big else sorted(set(symbol_bytes(s, enc)[0] for s in '09- '))
    for m, _ in faults.pairs(data, spos, pair_alph):
        yield m
    # numeral closure: every length numeral (element prefix, PDS sub-length) replaced by EVERY string over the
    # alphabet (up to 3 simultaneous byte changes inside one numeral)
    for name, s0, e0 in struct:
        if name.split('.')[-1] in ('prefix', 'len') and 2 <= e0 - s0 <= 3:
            for tup in itertools.product(alph, repeat=e0 - s0):
                if bytes(tup) != data[s0:e0]:
                    yield ('field', s0, list(tup))


def reframed_contents(data, struct, enc):
    """('splice', start, end, bytes): every variable-length element with every contiguous stretch of its content taken
    out (and, for short contents, every single position doubled) and its length prefix re-declared to match - the
    message stays well framed, only what the element's processor (DE43 pattern, PDS, ICC, PAN, number / date parser)
    is handed changes. Contents beyond 120 bytes: cut points every 29 bytes."""
    spans = {n: (a, b) for n, a, b in struct}
    for name, s0, e0 in struct:
        if not (name.startswith('DE') and name.endswith('.data') and name.count('.') == 1):
            continue
        pre = spans.get(name[:-5] + '.prefix')
        if not pre or pre[1] != s0:
            continue
        w = pre[1] - pre[0]
        val = data[s0:e0]
        step = 1 if len(val) <= 120 else 29
        cuts = sorted(set(range(0, len(val) + 1, step)) | {len(val)})

        def framed(v):
            return list((('%0' + str(w) + 'd') % len(v)).encode(enc) + v)
        for i in cuts:
            for j in cuts:
                if i < j:
                    yield ('splice', pre[0], e0, framed(val[:i] + val[j:]))
        if step == 1 and len(val) < 10 ** w - 1:
            for i in range(len(val)):
                yield ('splice', pre[0], e0, framed(val[:i] + val[i:i + 1] + val[i:]))


def numeral_shapes(w):
    """texts a numeric / decimal / date element can be handed: every notation a number parser might know (exponents,
    fractions, signs, separators, prefixes, special values, other digit scripts), among them exponents so large that
    a careless conversion computes for hours - each padded to the width w in three ways"""
    core_shapes = ['1e5', '1E5', '1.5', '.5', '5.', '1e', 'e5', '1e+5', '1e-5', '1.e5', '01.e99999999', '1e99999999',
                   '9e999999999', '1E+9999999', '1.0E+999999', '0x1F', '0o17', '0b11', '1_000', '+12', '-12', '- 12',
                   'inf', '-inf', 'nan', 'Infinity', 'NaN', 'sNaN', '1,5', '1 2', '--1', '++1', '1-', '0.0.0', '1e1e1',
                   '\u0661\u0662', '\u00b2', '\uff11', '1/2', '1%', '$1', '(1)', '1d', '1L', '1j', 'True', 'None']
    out = []
    for t in core_shapes:
        if len(t) <= w:
            for v in {t.zfill(w), t.rjust(w), t.ljust(w)}:
                out.append(v)
    if w >= 5:
        out += ['9' * w, 'e' * w, '.' * w, '1e' + '9' * (w - 2), '1.e' + '9' * (w - 3), '.1e' + '9' * (w - 3),
                '1.0e-' + '9' * (w - 5), '1E+' + '9' * (w - 3), '0' * (w - 4) + '1.e9', '1.e' + '0' * (w - 4) + '9',
                '9.e+' + '9' * (w - 4)]
    return out


def shape_mutations(data, struct, cfg, enc):
    """('field', offset, bytes) replacements of the data of every fixed-width TYPED element by every numeral shape"""
    for name, s0, e0 in struct:
        if not name.endswith('.data') or not name.startswith('DE'):
            continue
        bc = cfg.get(name[2:].split('.')[0])
        if not bc or not bc.get('field_python_type') or iso_ref.prefix_len(bc):
            continue
        w = e0 - s0
        for t in numeral_shapes(w):
            try:
                b = t.encode(enc)
            except UnicodeEncodeError:
                continue
            if len(b) == w and b != data[s0:e0]:
                yield ('field', s0, list(b))


def run_msg_task(task, acc):
    base = corpus.encoded(task['msg'], task['enc'], task['hex'])
    data, struct, cfg, cfgname = base
    if task.get('shapes'):
        muts = list(shape_mutations(data, struct, cfg, task['enc']))
    elif task.get('reframe'):
        muts = list(reframed_contents(data, struct, task['enc']))
    else:
        muts = list(msg_mutations(data, struct, task['tier'], task['enc']))
    part, of = task['part'], task['of']
    for i in range(part, len(muts), of):
        case = {'kind': 'msg', 'msg': task['msg'], 'enc': task['enc'], 'hex': task['hex'], 'mut': list(muts[i])}
        if task.get('via'):
            case['via'] = task['via']
        if task.get('shapes'):
            core.note_current(case)
        if i == part + of:
            acc.sample(dict(case, base_len=len(data)))
        check_msg_case(case, acc, base)
        if acc.outcomes.get('BAD.hang', 0) >= 6:
            acc.count('tasks_cut_short_after_6_hangs')   # each hang costs CPU_LIMIT seconds; the violation is recorded
            break


def check_closure_case(case, acc, cfg=None):
    """header(MTI, bitmap={bit}) + a short string over the closure alphabet"""
    enc, hx, bit = case['enc'], case['hex'], case['bit']
    cfg = cfg or corpus.cfg_of(case['cfg'])
    bm = bytearray(16)
    bm[0] |= 0x80
    bm[(bit - 1) // 8] |= 0x80 >> ((bit - 1) % 8)
    head = '1240'.encode(enc) + (bytes(bm).hex().encode('ascii') if hx else bytes(bm))
    tail = b''.join(symbol_bytes(CLOSURE_SYMBOLS[i], enc) for i in case['s'])
    out = classify_loads(head + tail, cfg, enc, hx)
    acc.case(('closure', case['cfg'], enc, hx, bit, tuple(case['s'])), nontrivial=len(case['s']) > 0, outcome=out)
    if out.startswith('BAD'):
        acc.viol('c07.loads.%s' % out[4:], case, out, 'dict or Iso8583DataError',
                 'DE%d body %r' % (bit, tail))


def run_closure_task(task, acc):
    cfg = corpus.cfg_of(task['cfg'])
    k = task['k']
    first = True
    for bit in task['bits']:
        for n in range(0, k + 1):
            for tup in itertools.product(range(len(CLOSURE_SYMBOLS)), repeat=n):
                case = {'kind': 'closure', 'cfg': task['cfg'], 'enc': task['enc'], 'hex': task['hex'], 'bit': bit,
                        's': list(tup)}
                if first and n == 3:
                    acc.sample(case)
                    first = False
                check_closure_case(case, acc, cfg)


def check_cfgseq_case(case, acc):
    """ONE caller-owned configuration object, edited in place between decodes of the same bytes: an element's entry
    is removed, restored, retyped.  Every decode must still end in a dict or the library error."""
    import copy
    data, struct, cfg0, cfgname = corpus.encoded(case['msg'], case['enc'], case['hex'])
    cfg = copy.deepcopy(cfg0)
    bit = str(case['bit'])
    saved = copy.deepcopy(cfg[bit])
    acc.case(('cfgseq', case['msg'], case['enc'], case['hex'], case['bit'], tuple(case['steps'])), nontrivial=True,
             outcome='cfgseq')
    for i, step in enumerate(case['steps']):
        if step == 'del':
            cfg.pop(bit, None)
        elif step == 'restore':
            cfg[bit] = copy.deepcopy(saved)
        elif step == 'llvar':
            cfg[bit] = dict(saved, field_type='LLVAR', field_length=0)
        elif step == 'fixed5':
            cfg[bit] = dict(saved, field_type='FIXED', field_length=5)
        elif step == 'int':
            # retyped as a plain number: a processor (PDS, ICC, DE43, PAN) works on text / bytes, "processor + numeric
            # type" is a contradictory entry, not a configuration the property speaks about
            cfg[bit] = {k: v for k, v in dict(saved, field_python_type='int').items()
                        if k not in ('field_processor', 'field_processor_config')}
        out = classify_loads(data, cfg, case['enc'], case['hex'])
        acc.outcome('cfgseq:' + out.split('@')[0])
        if out.startswith('BAD'):
            acc.viol('c07.cfgseq.%s' % out[4:], case, 'step %d (%s): %s' % (i + 1, step, out),
                     'a dict or the library error, never another exception or a hang',
                     'the configuration object is edited in place between decodes')
            return


CFG_STEPS = [['restore', 'del', 'restore', 'del'], ['restore', 'llvar', 'restore', 'fixed5', 'del', 'restore'],
             ['del', 'restore', 'int', 'restore']]


# ---- files --------------------------------------------------------------------------------------------

def file_base(name, enc):
    """-> (bytes, struct, kind, blocked)"""
    msgs = []
    for mname in ('plain', 'pds', 'icc', 'de43'):
        msgs.append(corpus.encoded(mname, enc, False)[0])
    if name.startswith('vbs'):
        recs = [b'abc', blk_ref.position_code(1010, 1), b'\x00\x00\x00\x00', b'\x40' * 30]
        kind = 'vbs'
    else:
        recs = msgs[:int(name[-1])]
        kind = 'ipm'
    blocked = '1014' in name
    stream = vbs_ref.frame(recs)
    st = []
    pos = 0
    for i, r in enumerate(recs):
        st.append(('rec%d.len' % i, pos, pos + 4))
        st.append(('rec%d.data' % i, pos + 4, pos + 4 + len(r)))
        pos += 4 + len(r)
    st.append(('terminator.len', pos, pos + 4))
    if not blocked:
        return stream, st, kind, False
    data = blk_ref.block(stream)

    def mp(p):           # stream offset -> file offset
        return p + 2 * (p // 1012)
    st2 = []
    for name_, s, e in st:
        if name_.endswith('.len'):
            for p in range(s, e):
                st2.append((name_, mp(p), mp(p) + 1))
        else:
            st2.append((name_, mp(s), mp(e - 1) + 1 if e > s else mp(s)))
    for b in range(len(data) // 1014):
        st2.append(('block%d.trailer' % b, b * 1014 + 1012, b * 1014 + 1014))
    return data, st2, kind, True


FILE_NAMES = ['vbs', 'vbs_1014', 'ipm_1', 'ipm_4', 'ipm_1014_2', 'ipm_1014_4']


def check_file_case(case, acc, base=None):
    if base is None:
        base = file_base(case['file'], case['enc'])
    data, struct, kind, blocked = base
    mut = case['mut']
    bad = faults.apply(data, tuple(mut))
    out = read_file(bad, kind, blocked, case['enc'])
    acc.case((case['file'], case['enc'], tuple(mut)), nontrivial=mut[0] != 'none', outcome='file:' + out)
    if out.startswith('BAD'):
        pos = mut[1] if len(mut) > 1 and isinstance(mut[1], int) else 0
        acc.viol('c07.reader.%s.%s' % (out[4:], kind), case, out, 'records then stop or MciIpmDataError',
                 '%s at %s' % (list(mut), where_of(struct, min(pos, len(data) - 1))))


def file_mutations(data, struct, tier):
    yield ('none',)
    step = 1 if tier == 'thorough' else 3
    for n in range(0, len(data) + 1, step):
        yield ('trunc', n)
    lens = faults.structural_positions(struct, names=('len', 'trailer'))
    for m, _ in faults.substitutions(data, lens):
        yield m
    content = range(0, len(data), 11 if tier == 'quick' else 3)
    for m, _ in faults.substitutions(data, content, values=(0x00, 0xff, 0x30, 0x40, 0x2d)):
        yield m
    if len(data) < 1500 or tier == 'thorough':
        for m, _ in faults.insert_delete(data, values=(0x00, 0xff)):
            yield m
    for m, _ in faults.pairs(data, lens[:16], [0x00, 0x01, 0x17, 0xff]):
        yield m


def run_file_task(task, acc):
    base = file_base(task['file'], task['enc'])
    muts = list(file_mutations(base[0], base[1], task['tier']))
    for i in range(task['part'], len(muts), task['of']):
        case = {'kind': 'file', 'file': task['file'], 'enc': task['enc'], 'mut': list(muts[i])}
        if i == task['part'] + task['of']:
            acc.sample(dict(case, base_len=len(base[0])))
        check_file_case(case, acc, base)


# ---- the stated consequence: command-line tool stops with a diagnostic ------------------------------------

def check_cli_case(case, acc):
    from cardutil.cli import mci_ipm_to_csv
    data, struct, cfg, cfgname = corpus.encoded(case['msg'], 'latin_1', False)
    bad = faults.apply(data, tuple(case['mut']))
    d = tempfile.mkdtemp(prefix='vf_c07_')
    try:
        path = os.path.join(d, 'in.ipm')
        with open(path, 'wb') as f:
            f.write(vbs_ref.frame([data, bad, data]))

        def run():
            with contextlib.redirect_stdout(io.StringIO()), contextlib.redirect_stderr(io.StringIO()):
                if case.get('tool') == 'mideu':
                    from cardutil.cli import mideu
                    return mideu.cli_entry(['extract', path, '-s', 'ascii', '--no1014blocking', '--csvoutputfile',
                                            os.path.join(d, 'out.csv')])
                return mci_ipm_to_csv.cli_run(in_filename=path, out_filename=os.path.join(d, 'out.csv'),
                                              in_encoding='latin_1', no1014blocking=True)
        status, val = faults.guarded(run, CPU_LIMIT)
    finally:
        shutil.rmtree(d, ignore_errors=True)
    out = 'hang' if status == 'hang' else ('traceback:' + type(val).__name__ if status == 'exc' else
                                           'diagnostic' if val == -1 else 'completed')
    acc.case(('cli', case['msg'], tuple(case['mut']), case.get('tool')), nontrivial=True, outcome='cli:' + out)
    if out == 'hang' or out.startswith('traceback'):
        acc.viol('c07.cli.%s' % out.split(':')[0], case, out, 'stops with a diagnostic (return -1) or completes')


CLI_CASES = [
    {'kind': 'cli', 'msg': 'pds', 'mut': ['sub', 47, 0x58]},     # PDS sub-length made non numeric
    {'kind': 'cli', 'msg': 'pds', 'mut': ['sub', 47, 0x2d]},     # PDS sub-length made negative
    {'kind': 'cli', 'msg': 'icc', 'mut': ['sub', 31, 0x0b]},     # ICC first value length shortened
    {'kind': 'cli', 'msg': 'icc', 'mut': ['sub', 28, 0x34]},     # ICC field one byte longer than its TLVs
    {'kind': 'cli', 'msg': 'plain', 'mut': ['sub', 20, 0x2d]},   # DE2 prefix '-6'
    {'kind': 'cli', 'msg': 'plain', 'mut': ['trunc', 40]},
    {'kind': 'cli', 'msg': 'plain', 'mut': ['none']},
]
CLI_CASES += [dict(c, tool='mideu') for c in CLI_CASES]


CLI2_TOOLS = ['mci_ipm_to_csv', 'mideu_extract', 'mideu_convert', 'mci_ipm_to_csv_argv', 'paramconv']
CLI2_BASES = ['plain', 'pds', 'icc', 'de43', 'min', 'trailer', 'header']


def cli2_mutations(name, tier):
    """a regular thinning (every k-th, k prime) of the message mutation set of a corpus message, in latin_1 and cp500"""
    out = []
    for enc in ('latin_1', 'cp500'):
        data, struct, cfg, _ = corpus.encoded(name, enc, False)
        muts = list(msg_mutations(data, struct, 'quick', enc))
        k = 211 if tier == 'quick' else 53
        out += [(enc, list(m)) for m in muts[::k]]
    return out


def check_cli2_case(case, acc):
    """the commands that catch the library's data error, run on a three-record file whose middle record carries the
    fault (blocked and unblocked, through cli_run and through the argument parser): they must complete or stop with
    their diagnostic (return -1) - never a traceback, never a hang. Their diagnostic prints the error, the wrapped
    exception and a hexdump of the record, so the fault's bytes flow through that code as well."""
    from cardutil.cli import mci_ipm_to_csv, mideu, paramconv
    enc, tool, blocked = case['enc'], case['tool'], case['blocked']
    data, struct, cfg, cfgname = corpus.encoded(case['msg'], enc, False)
    bad = faults.apply(data, tuple(case['mut']))
    stream = vbs_ref.frame([data, bad, data])
    content = blk_ref.block(stream) if blocked else stream
    src = 'ebcdic' if enc == 'cp500' else 'ascii'
    nb = [] if blocked else ['--no1014blocking']
    d = tempfile.mkdtemp(prefix='vf_c07_')
    argv0 = sys.argv
    try:
        path = os.path.join(d, 'in.ipm')
        with open(path, 'wb') as f:
            f.write(content)

        def run():
            with contextlib.redirect_stdout(io.StringIO()), contextlib.redirect_stderr(io.StringIO()):
                if tool == 'mci_ipm_to_csv':
                    return mci_ipm_to_csv.cli_run(in_filename=path, out_filename=os.path.join(d, 'out.csv'),
                                                  in_encoding=enc, no1014blocking=not blocked)
                if tool == 'mci_ipm_to_csv_argv':
                    sys.argv = ['mci_ipm_to_csv', path, '--in-encoding', enc] + nb
                    return mci_ipm_to_csv.cli_entry()
                if tool == 'mideu_extract':
                    return mideu.cli_entry(['extract', path, '-s', src] + nb)
                if tool == 'mideu_convert':
                    return mideu.cli_entry(['convert', path, '-s', src] + nb)
                return paramconv.cli_entry([path, '-s', src] + nb)
        status, val = faults.guarded(run, CPU_LIMIT)
    finally:
        sys.argv = argv0
        shutil.rmtree(d, ignore_errors=True)
    out = 'hang' if status == 'hang' else ('traceback:' + type(val).__name__ if status == 'exc' else
                                           'diagnostic' if val == -1 else 'completed')
    acc.case(('cli2', case['msg'], enc, repr(case['mut']), tool, blocked), nontrivial=True, outcome='cli:' + out)
    if out == 'hang' or out.startswith('traceback'):
        acc.viol('c07.cli.%s.%s' % (out.split(':')[0], tool), case, '%s %r' % (out, val), 'stops with a diagnostic '
                 '(return -1) or completes', 'record 2 of 3: %s' % (case['mut'],))


def replay_into(case, acc):
    k = case['kind']
    if k == 'cli2':
        return check_cli2_case(case, acc)
    if k == 'msg':
        check_msg_case(case, acc)
    elif k == 'cfgseq':
        check_cfgseq_case(case, acc)
    elif k == 'closure':
        check_closure_case(case, acc)
    elif k == 'file':
        check_file_case(case, acc)
    else:
        check_cli_case(case, acc)


def tasks(tier, seed):
    ts = []
    names = [n for n in corpus.messages()]
    of = 4 if tier == 'quick' else 8
    for name in names:
        for enc in ENCS:
            for hx in (False, True):
                if tier == 'quick' and hx and enc == 'ascii':
                    continue
                if name in ('maxvar', 'wide') and (enc, hx) not in (('latin_1', False), ('cp500', True)):
                    continue
                for part in range(of):
                    ts.append({'t': 'msg', 'msg': name, 'enc': enc, 'hex': hx, 'part': part, 'of': of, 'tier': tier})
    for name in ('plain', 'typed', 'wide', 'gen'):
        for enc, hx in (('latin_1', False), ('cp500', False), ('utf-8', False), ('latin_1', True)):
            if name == 'wide' and enc != 'latin_1':
                continue
            ts.append({'t': 'msg', 'msg': name, 'enc': enc, 'hex': hx, 'part': 0, 'of': 1, 'tier': tier, 'shapes': True})
    # well-framed messages whose variable-length contents are shortened / stretched with the prefix re-declared
    for name in names:
        for enc, hx in (('latin_1', False), ('cp500', False), ('latin_1', True)):
            if name in ('maxvar', 'wide') and enc != 'latin_1':
                continue
            ts.append({'t': 'msg', 'msg': name, 'enc': enc, 'hex': hx, 'part': 0, 'of': 1, 'tier': tier, 'reframe': True})
    # the same mutation sets of the administrative messages (and two ordinary ones), read through IpmReader
    for name in ('trailer', 'header', 'plain', 'pds'):
        for enc in ('latin_1', 'cp500'):
            for part in range(of):
                ts.append({'t': 'msg', 'msg': name, 'enc': enc, 'hex': False, 'part': part, 'of': of, 'tier': tier,
                           'via': 'reader'})
    k = 3 if tier == 'quick' else 5
    for cfgname in ('PKG', 'CUSTOM', 'GEN%d' % (seed % 14)):
        if cfgname == 'CUSTOM':
            bits = [2, 6, 7, 32, 73]
        else:
            bits = isogen.bits_of(cfgname) if not cfgname.startswith('GEN') else isogen.bits_of(cfgname)[:28]
        for enc, hx in (('latin_1', False), ('cp500', False), ('latin_1', True)):
            for ch in core.spread(bits, 4 if tier == 'quick' else 16):
                ts.append({'t': 'closure', 'cfg': cfgname, 'enc': enc, 'hex': hx, 'bits': ch, 'k': k})
    for fname in FILE_NAMES:
        for enc in ('latin_1', 'cp500'):
            if fname.startswith('vbs') and enc != 'latin_1':
                continue
            for part in range(of):
                ts.append({'t': 'file', 'file': fname, 'enc': enc, 'part': part, 'of': of, 'tier': tier})
    ts.append({'t': 'cli'})
    cli2 = []
    for name in CLI2_BASES:
        for i, (enc, mut) in enumerate(cli2_mutations(name, tier)):
            cli2.append({'kind': 'cli2', 'msg': name, 'enc': enc, 'mut': mut, 'tool': CLI2_TOOLS[i % len(CLI2_TOOLS)],
                         'blocked': bool((i // len(CLI2_TOOLS)) % 2)})
    for ch in core.spread(cli2, 16):
        ts.append({'t': 'cases', 'cases': ch})
    seqs = []
    for name in names:
        for enc, hx in (('latin_1', False), ('cp500', True)):
            data, struct, cfg, _ = corpus.encoded(name, enc, hx)
            bits = sorted({int(n[2:].split('.')[0]) for n, s_, e_ in struct if n.startswith('DE')})
            for bit in bits:
                for steps in CFG_STEPS:
                    seqs.append({'kind': 'cfgseq', 'msg': name, 'enc': enc, 'hex': hx, 'bit': bit, 'steps': steps})
    for ch in core.chunks(seqs, 16):
        ts.append({'t': 'cases', 'cases': ch})
    return ts


def run_task(task):
    acc = core.Acc()
    if task['t'] == 'msg':
        run_msg_task(task, acc)
    elif task['t'] == 'closure':
        run_closure_task(task, acc)
    elif task['t'] == 'file':
        run_file_task(task, acc)
    elif task['t'] == 'cases':
        for i, case in enumerate(task['cases']):
            if i == 0:
                acc.sample(case)
            replay_into(case, acc)
    else:
        for case in CLI_CASES:
            check_cli_case(case, acc)
        acc.sample(CLI_CASES[0])
    return acc


def describe(tier, seed):
    return {
        'rule': 'corpus of %d reference-encoded messages (plain, PDS, ICC, DE43, typed incl. decimal/LLVAR-int/PAN, '
                'minimal, generated config) x {latin_1, cp500, ascii} x {binary, hex bitmap}: 0 deviations; every '
                'truncation; every single-byte substitution (all 256 values) at %s; one-byte insert (4 values) / delete '
                'at every offset; every pair of structural positions (length prefixes, PDS sub-lengths, TLV lengths, '
                'bitmap bytes) x a 10-value alphabet; every variable-length element with every contiguous stretch of '
                'its content removed (or one position doubled) and the prefix re-declared, so the message stays well '
                'framed. Closure: MTI + single-bit bitmap + every string of length <= %d '
                'over 8 symbols for every configured bit (PKG, custom, generated). Files (VBS / 1014 / IPM with 1..4 '
                'records): truncations, every value of every length-prefix and trailer byte, content substitutions, '
                'insert/delete, pairs of length bytes. Configuration sequences: one caller-owned configuration object '
                'whose entry for a flagged element is removed / restored / retyped in place between decodes of the same '
                'bytes. Oracle: loads returns a dict or raises the library error; '
                'readers yield then stop or raise MciIpmDataError; a %.0f s CPU-time watchdog never fires; '
                'mci_ipm_to_csv.cli_run on real files returns (diagnostic) instead of raising. Distinct by (base, '
                'mutation); non-trivial = mutated.' % (len(corpus.messages()), 'every position' if tier == 'thorough'
                                                      else 'every structural position and every 7th content position',
                                                      3 if tier == 'quick' else 5, CPU_LIMIT),
        'assumptions': ['any CardutilError subclass counts as the library error for loads',
                        'mutation depth above 2 simultaneous byte changes is not explored',
                        'the watchdog counts CPU time of the worker process (ITIMER_VIRTUAL)'],
        'bounds': {'deviations': 2, 'closure_length': 3 if tier == 'quick' else 5, 'cpu_limit_s': CPU_LIMIT},
        'exhaustive': True,
    }


def replay_case(case):
    acc = core.Acc()
    replay_into(case, acc)
    return acc


def selfcheck():
    iso_ref.selfcheck()
    for name in corpus.messages():
        corpus.encoded(name, 'latin_1', False)
