"""
C20 - CSV to IPM to CSV returns the same rows.
E2: column subsets (MTI + each single column, MTI + every pair, all columns, PDS-only / DE48-only) x rows 1..3 with
per-row omissions x value variants crossed with a CSV metacharacter alphabet x codecs x formats x entry points.
"""
import contextlib
import csv
import io
import itertools
import os
import shutil
import tempfile

from vf import core
from vf.ref import iso_ref

PROPERTY = 'C20'
LEVEL = 'exploration'
EXTRA_AXES = ('nodateutil',)     # date cells are parsed by python-dateutil if present, else by fromisoformat

CODECS = ['latin_1', 'cp500', 'cp037']
META = ['', ',', '"', '""', ';', ' x', 'x ', "a,b\"c", '[!]^|', 'CAF\xc9', '\xd1\xfc\xa3']


def columns():
    """supplied columns: MTI, data elements, PDS sub-elements of the configured output list (derived DE43_* /
    ICC_DATA columns are outputs only)"""
    from cardutil.config import config
    cols = [c for c in config['output_data_elements'] if c == 'MTI' or (c.startswith('DE') and '_' not in c)
            or c.startswith('PDS')]
    return cols


def col_kind(col):
    from cardutil.config import config
    if col == 'MTI':
        return 'mti', 4
    if col.startswith('PDS'):
        return 'pdsval', 0
    bc = config['bit_config'][col[2:]]
    t = bc.get('field_python_type')
    pl = iso_ref.prefix_len(bc)
    if bc.get('field_processor') == 'PDS':
        return 'carrier', 0
    if t in ('int', 'long'):
        return 'num', bc['field_length']
    if t == 'datetime':
        return 'date', 0
    if pl:
        return 'var', 10 ** pl - 1
    return 'fixed', bc['field_length']


STAMPS = ['1969-01-01 00:00:00', '1999-12-31 23:59:59', '2000-02-29 12:30:45', '2024-06-18 00:00:00',
          '2068-12-31 23:59:59', '2021-03-04 05:06:07', '2010-12-01 00:00:01', '2001-02-03 04:05:06',
          '2030-11-12 13:14:15']


def value_for(col, variant, row):
    """variant: ('plain', i) | ('meta', i) ; -> cell text"""
    kind, w = col_kind(col)
    vk, vi = variant
    salt = (sum(map(ord, col)) + row * 7) % 10
    if kind == 'mti':
        return ['1240', '0100', '1644', '9999'][(vi + row) % 4]
    if kind == 'num':
        return [str(salt + 1), '0', str(10 ** w - 1), '1' + '0' * (w - 1), '42'][vi % 5]
    if kind == 'date':
        return STAMPS[(vi + row) % len(STAMPS)]
    if kind == 'carrier':
        body = ['0023003CT6', '0001000', '0158012ABCDEFGHIJKL0165001M', '0002005a,b"c'][vi % 4]
        return body
    base = 'ABCDEFGHJKLMNPQRSTUVWXYZ0123456789'
    if vk == 'lit':
        # a cell whose WHOLE text is a sentinel-like word or a string literal of the library's own source
        from vf import literals
        texts = literals.cell_texts(20)
        t = texts[(vi + row) % len(texts)]
        if kind == 'fixed':
            return (t + base * 3)[:w] if len(t) < w else t[:w]
        if kind in ('var', 'pdsval'):
            return t[:w] if kind == 'var' else t
    if vk == 'blank':
        # present-but-blank looking cells: all spaces (fixed: exactly the width), 'None', '0' * width
        if kind == 'fixed':
            return [' ' * w, ('None' + ' ' * w)[:w], '0' * w][vi % 3]
        if kind in ('var', 'pdsval'):
            return [' ', '   ', 'None', '0', '00'][vi % 5]
    if kind == 'fixed':
        txt = (base[salt:] + base * 3)[:w]
        if vk == 'meta':
            m = META[vi % len(META)]
            if len(m) <= w:
                txt = (m + txt)[:w] if vi % 2 else (txt[:w - len(m)] + m)
        return txt
    # variable text / PDS values
    top = w if kind == 'var' else 60
    n = [1, top, 7, 16][vi % 4] if vk == 'plain' else max(1, min(top, 9))
    txt = (base[salt:] + base * 30)[:n]
    if vk == 'meta':
        m = META[vi % len(META)]
        txt = (m + txt) if vi % 2 else (txt + m)
        txt = txt[:top]
    return txt


def build_table(case):
    """-> (fieldnames, rows as list of dicts with '' for omitted cells)"""
    if case.get('day') is not None:
        # every calendar day of a leap year (and the same day-of-year in other years of the two-digit window), with a
        # time of day derived from it: month/day swaps, off-by-one days and lost times show on most of them
        import datetime as _dt
        d0 = _dt.datetime(case['year'], 1, 1) + _dt.timedelta(days=case['day'])
        rows = []
        for k in range(3):
            d = d0.replace(hour=(case['day'] + 7 * k) % 24, minute=(case['day'] * 3 + k) % 60,
                           second=(case['day'] * 7 + 11 * k) % 60)
            rows.append({'MTI': '1240', 'DE12': d.strftime('%Y-%m-%d %H:%M:%S')})
        return ['MTI', 'DE12'], rows
    if case.get('sweep') is not None:
        # alignment sweep: a first row whose record length grows one character at a time moves the following large
        # records through every position relative to the 1012-byte block payloads
        base = 'ABCDEFGHJKLMNPQRSTUVWXYZ0123456789'
        n = case['sweep']
        cols = ['MTI', 'DE31', 'DE48', 'DE63', 'DE94']
        rows = [{'MTI': '1240', 'DE31': '', 'DE48': '', 'DE63': (base * 30)[:n], 'DE94': ''},
                {'MTI': '1240', 'DE31': (base * 3)[:99], 'DE48': '0001900' + (base * 27)[:900],
                 'DE63': (base[5:] * 35)[:999], 'DE94': '12345'},
                {'MTI': '1644', 'DE31': '', 'DE48': '0023003CT6', 'DE63': (base[9:] * 35)[:997 - n % 3], 'DE94': '1'}]
        return cols, rows
    if case.get('fillrun') is not None:
        # values made of the character whose byte is 0x40 in the output codec ('@' in latin_1, the space in the
        # EBCDIC codecs): an UNBLOCKED file of these has 0x40 0x40 wherever a 1014-blocked file has its block
        # trailers, and is still an unblocked file when the user says so
        ch = '@' if case['enc'] == 'latin_1' else ' '
        n = case['fillrun']
        rows = [{'MTI': '1240', 'DE63': ch * n, 'DE31': '', 'DE94': ''},
                {'MTI': '1240', 'DE63': ch * 999, 'DE31': ch * 99, 'DE94': ch * 99},
                {'MTI': '1644', 'DE63': 'A' + ch * 997 + 'Z', 'DE31': ch * 50, 'DE94': ''},
                {'MTI': '1240', 'DE63': ch * 999, 'DE31': 'x', 'DE94': ch * 99},
                {'MTI': '1240', 'DE63': ch * 999, 'DE31': ch, 'DE94': 'y'}]
        return ['MTI', 'DE31', 'DE63', 'DE94'], rows
    cols = case['cols']
    rows = []
    for r in range(case['rows']):
        row = {}
        for ci, col in enumerate(cols):
            omit = col != 'MTI' and case.get('omit') and (r + ci) % 3 == case['omit'] % 3
            row[col] = '' if omit else value_for(col, tuple(case['variant']), r)
        rows.append(row)
    return cols, rows


@contextlib.contextmanager
def quiet():
    with contextlib.redirect_stdout(io.StringIO()), contextlib.redirect_stderr(io.StringIO()):
        yield


def convert(case, csv_text, workdir):
    from cardutil.cli import mci_csv_to_ipm, mci_ipm_to_csv
    from cardutil.config import config
    enc, blocked = case['enc'], case['blocked']
    env_dir = None
    if case.get('envcfg'):
        # CARDUTIL_CONFIG points at a directory holding cardutil.json (here: the packaged configuration, sorted keys)
        import json as _json
        env_dir = os.path.join(workdir, 'cfgdir')
        os.makedirs(env_dir, exist_ok=True)
        with open(os.path.join(env_dir, 'cardutil.json'), 'w') as f:
            _json.dump(config, f, sort_keys=True)
    if case['entry'] == 'func':
        ipm = io.BytesIO()
        mci_csv_to_ipm.mci_csv_to_ipm(in_csv=io.StringIO(csv_text), out_ipm=ipm, config=config, out_encoding=enc,
                                      no1014blocking=not blocked)
        out = io.StringIO()
        mci_ipm_to_csv.mci_ipm_to_csv(in_ipm=io.BytesIO(ipm.getvalue()), out_csv=out, config=config, in_encoding=enc,
                                      no1014blocking=not blocked)
        return out.getvalue()
    import json
    import sys
    inp = os.path.join(workdir, 'in.csv')
    ipm = os.path.join(workdir, 'mid.ipm')
    outp = os.path.join(workdir, 'out.csv')
    for p_ in (ipm, outp, inp + '.ipm', inp + '.ipm.csv'):
        if os.path.exists(p_):
            os.unlink(p_)
    with open(inp, 'w', newline='') as f:
        f.write(csv_text)
    argv0 = sys.argv
    env0 = os.environ.get('CARDUTIL_CONFIG')
    try:
        if env_dir:
            os.environ['CARDUTIL_CONFIG'] = env_dir
        with quiet():
            if case['entry'] == 'mideu':
                # the other extraction command of the package: mideu extract (ebcdic = cp500, ascii = latin1)
                from cardutil.cli import mideu
                mci_csv_to_ipm.cli_run(in_filename=inp, out_filename=ipm, out_encoding=enc,
                                       no1014blocking=not blocked)
                rc = mideu.cli_entry(['extract', ipm, '-s', 'ebcdic' if enc == 'cp500' else 'ascii',
                                      '--csvoutputfile', outp] + ([] if blocked else ['--no1014blocking']))
            elif case['entry'] == 'cli':
                mci_csv_to_ipm.cli_run(in_filename=inp, out_filename=ipm, out_encoding=enc,
                                       no1014blocking=not blocked)
                rc = mci_ipm_to_csv.cli_run(in_filename=ipm, out_filename=outp, in_encoding=enc,
                                            no1014blocking=not blocked)
            else:
                # the installed commands: argument parser, default output names, optionally a JSON configuration
                # file (written with sorted keys, as a user's tooling might)
                extra = []
                if case['entry'] == 'argv_cfg':
                    cfgp = os.path.join(workdir, 'cardutil.json')
                    with open(cfgp, 'w') as f:
                        json.dump(config, f, sort_keys=True)
                    extra = ['--config-file', cfgp]
                dbg = ['--debug'] if len(csv_text) % 2 else []
                sys.argv = ['mci_csv_to_ipm', inp, '--out-encoding', enc] + (['--no1014blocking'] if not blocked
                                                                            else []) + extra + dbg
                mci_csv_to_ipm.cli_entry()
                ipm = inp + '.ipm'
                sys.argv = ['mci_ipm_to_csv', ipm, '--in-encoding', enc] + (['--no1014blocking'] if not blocked
                                                                           else []) + extra + dbg
                rc = mci_ipm_to_csv.cli_entry()
                outp = ipm + '.csv'
    finally:
        sys.argv = argv0
        if env0 is None:
            os.environ.pop('CARDUTIL_CONFIG', None)
        else:
            os.environ['CARDUTIL_CONFIG'] = env0
    if rc == -1:
        raise RuntimeError('mci_ipm_to_csv reported a data error')
    with open(outp, newline='') as f:
        return f.read()


def check_case(case, acc, workdir=None):
    if case.get('kind') == 'cfgseq':
        return check_cfgseq(case, acc)
    own = workdir is None and case['entry'] != 'func'
    if own:
        workdir = tempfile.mkdtemp(prefix='vf_c20_')
    try:
        cols, rows = build_table(case)
        buf = io.StringIO()
        w = csv.DictWriter(buf, fieldnames=cols, lineterminator='\n')
        w.writeheader()
        w.writerows(rows)
        acc.case((tuple(cols), case.get('rows'), tuple(case.get('variant', [])), case.get('omit'), case['enc'],
                  case['blocked'], case['entry'], case.get('sweep'), case.get('day'), case.get('year'),
                  case.get('envcfg'), case.get('fillrun')),
                 nontrivial=len(cols) > 1,
                 outcome='%s/%s' % (case['entry'], case['enc']))
        try:
            out_text = convert(case, buf.getvalue(), workdir)
        except Exception as ex:
            acc.viol('c20.exception.%s' % case['entry'], case, repr(ex), 'a CSV file', 'input:\n' + buf.getvalue()[:300])
            return
        got = list(csv.DictReader(io.StringIO(out_text)))
        if len(got) != len(rows):
            acc.viol('c20.row_count', case, '%d rows' % len(got), '%d rows' % len(rows))
            return
        for i, (want, g) in enumerate(zip(rows, got)):
            for col in cols:
                if want[col] == '':
                    continue
                if g.get(col) != want[col]:
                    acc.viol('c20.value.%s' % col_kind(col)[0], case, 'row %d %s=%r' % (i + 1, col, g.get(col)),
                             '%s=%r' % (col, want[col]), 'supplied column differs after CSV -> IPM -> CSV')
                    return
    finally:
        if own:
            shutil.rmtree(workdir, ignore_errors=True)


def check_cfgseq(case, acc):
    """ONE configuration object, customised in place between conversions made by the same process: which elements
    carry PDS data changes (DE48 becomes plain text, later a PDS carrier again; DE62 loses / regains the processor).
    Every CSV -> IPM -> CSV run is judged against the configuration as it is at that time."""
    import copy
    from cardutil.cli import mci_csv_to_ipm, mci_ipm_to_csv
    from cardutil.config import config as package_config
    acc.case(('cfgseq', case['enc'], case['blocked'], tuple(case['steps'])), nontrivial=True, outcome='cfgseq')
    cfg = copy.deepcopy(package_config)
    plain48 = {'field_name': 'Additional data', 'field_type': 'LLLVAR', 'field_length': 0}
    orig48, orig62 = copy.deepcopy(cfg['bit_config']['48']), copy.deepcopy(cfg['bit_config']['62'])
    enc, blocked = case['enc'], case['blocked']
    for si, step in enumerate(case['steps']):
        if step == 'plain48':
            cfg['bit_config']['48'] = dict(plain48)
        elif step == 'pds48':
            cfg['bit_config']['48'] = copy.deepcopy(orig48)
        elif step == 'plain62':
            cfg['bit_config']['62'] = {k: v for k, v in orig62.items() if k != 'field_processor'}
        elif step == 'pds62':
            cfg['bit_config']['62'] = copy.deepcopy(orig62)
        else:
            is48 = cfg['bit_config']['48'].get('field_processor') != 'PDS'
            cols = ['MTI', 'DE2', 'DE4', 'PDS0023', 'PDS0158'] + (['DE48'] if is48 else [])
            rows = []
            for r in range(3):
                row = {'MTI': '1240', 'DE2': '51112222333344%02d' % (si * 3 + r), 'DE4': str(1500 + r + si),
                       'PDS0023': ['POI', 'NA ', 'CT6'][r], 'PDS0158': 'MCC, "A" %d' % (si + r)}
                if is48:
                    row['DE48'] = 'free text, "quoted" %d' % r
                rows.append(row)
            buf = io.StringIO()
            w = csv.DictWriter(buf, fieldnames=cols, lineterminator='\n')
            w.writeheader()
            w.writerows(rows)
            try:
                ipm = io.BytesIO()
                mci_csv_to_ipm.mci_csv_to_ipm(in_csv=io.StringIO(buf.getvalue()), out_ipm=ipm, config=cfg,
                                              out_encoding=enc, no1014blocking=not blocked)
                out = io.StringIO()
                mci_ipm_to_csv.mci_ipm_to_csv(in_ipm=io.BytesIO(ipm.getvalue()), out_csv=out, config=cfg,
                                              in_encoding=enc, no1014blocking=not blocked)
            except Exception as ex:
                acc.viol('c20.cfgseq.exception', case, 'step %d: %r' % (si + 1, ex), 'a CSV file')
                return
            got = list(csv.DictReader(io.StringIO(out.getvalue())))
            if len(got) != len(rows):
                acc.viol('c20.cfgseq.row_count', case, 'step %d: %d rows' % (si + 1, len(got)), '%d rows' % len(rows))
                return
            for i, (want, g) in enumerate(zip(rows, got)):
                for col in cols:
                    if g.get(col) != want[col]:
                        acc.viol('c20.cfgseq.value', case, 'step %d row %d %s=%r' % (si + 1, i + 1, col, g.get(col)),
                                 '%s=%r' % (col, want[col]), 'the configuration object was customised in place between '
                                 'the conversions: %s' % (case['steps'][:si + 1],))
                        return


def enumerate_cases(tier, seed):
    cols = columns()
    de_cols = [c for c in cols if c != 'MTI' and not c.startswith('PDS') and c != 'DE48']
    pds_cols = [c for c in cols if c.startswith('PDS')]
    cases = []
    variants = [['plain', i] for i in range(5)] + [['meta', i] for i in range(len(META) * 2)] + \
        [['blank', i] for i in range(5)]

    def add(c, rows, variant, omit=0, envs=None):
        for enc, blocked, entry in (envs or [('latin_1', True, 'func')]):
            cases.append({'cols': ['MTI'] + c, 'rows': rows, 'variant': variant, 'omit': omit, 'enc': enc,
                          'blocked': blocked, 'entry': entry, 'seed': seed})
    all_envs = [(e, b, en) for e in CODECS for b in (False, True) for en in ('func', 'cli', 'argv', 'argv_cfg')]
    all_envs += [(e, b, 'mideu') for e in ('latin_1', 'cp500') for b in (False, True)]
    # MTI + each single column x every variant x every environment
    for ci, col in enumerate(de_cols + pds_cols + ['DE48']):
        for vi, v in enumerate(variants):
            envs = all_envs if (tier == 'thorough' or vi < 2) else [all_envs[(ci + vi) % len(all_envs)],
                                                                     all_envs[(ci + 5 * vi + 7) % len(all_envs)]]
            add([col], 1 + vi % 3, v, 0, envs)
    # MTI + every pair of columns (PDS columns never together with DE48)
    pool = de_cols + pds_cols
    for pi, (a, b) in enumerate(itertools.combinations(pool, 2)):
        v = variants[pi % len(variants)]
        add([a, b], 1 + pi % 3, v, pi % 4, [all_envs[pi % len(all_envs)]])
    # all columns: PDS columns only / DE48 only
    for vi, v in enumerate(variants):
        for omit in (0, 1, 2, 3):
            for rows in (1, 2, 3):
                env = [all_envs[(vi + omit + rows) % len(all_envs)]]
                add(de_cols + pds_cols, rows, v, omit, env)
                add(de_cols + ['DE48'], rows, v, omit, env)
    add([], 1, ['plain', 0], 0, all_envs)
    # every sentinel-like / harvested text as the whole content of a variable-length cell and of a PDS cell
    from vf import literals
    nlit = len(literals.cell_texts(20))
    for vi in range(0, nlit, 3):
        env = all_envs[vi % len(all_envs)]
        for colset in (['DE63', 'PDS0158'], ['DE2' if False else 'DE31', 'DE94', 'PDS0023']):
            cases.append({'cols': ['MTI'] + colset, 'rows': 3, 'variant': ['lit', vi], 'omit': 0, 'enc': env[0],
                          'blocked': env[1], 'entry': env[2], 'seed': seed})
    for vi in range(len(META) * 2):
        for col in ('DE63', 'DE42', 'PDS0158'):
            for enc, blocked, entry in [e for e in all_envs if e[2] in ('cli', 'argv')][vi % 3::3]:
                cases.append({'cols': ['MTI', col], 'rows': 2, 'variant': ['meta', vi], 'omit': 0, 'enc': enc,
                              'blocked': blocked, 'entry': entry, 'seed': seed, 'envcfg': True})
    for year in (2024, 1972, 2068):
        for day in range(366 if year != 2068 else 365):
            if year != 2024 and day % 5:
                continue
            cases.append({'day': day, 'year': year, 'enc': CODECS[day % 3], 'blocked': bool(day % 2),
                          'entry': 'func' if day % 40 else 'cli', 'seed': seed})
    for n in range(1, 1000):
        for enc, blocked in ((('latin_1', True),) if n % 7 else (('latin_1', True), ('cp500', True), ('cp037', False))):
            cases.append({'sweep': n, 'enc': enc, 'blocked': blocked, 'entry': 'func' if n % 50 else 'cli',
                          'seed': seed})
    for steps in (['run', 'plain48', 'run', 'pds48', 'run'], ['plain48', 'run', 'pds48', 'run', 'plain48', 'run'],
                  ['run', 'plain62', 'run', 'plain48', 'run', 'pds62', 'run', 'pds48', 'run'],
                  ['run', 'run', 'plain48', 'run', 'run']):
        for enc in CODECS:
            for blocked in (False, True):
                cases.append({'kind': 'cfgseq', 'steps': steps, 'enc': enc, 'blocked': blocked, 'entry': 'func',
                              'seed': seed})
    # files beyond 1 MiB (1200 rows of ~1.2 kB)
    if core.AXIS == '':
        add(['DE2', 'DE31', 'DE63'], 1200, ['plain', 1], 0, [('cp500', True, 'cli'), ('latin_1', False, 'argv'),
                                                              ('cp037', True, 'func')])
    for n in range(1, 1000, 13 if tier == 'quick' else 3):
        for k, enc in enumerate(CODECS):
            entry = ('cli', 'argv', 'func', 'argv_cfg')[(n + k) % 4]
            cases.append({'fillrun': n, 'enc': enc, 'blocked': False, 'entry': entry, 'seed': seed})
            if n % 5 == 0:
                cases.append({'fillrun': n, 'enc': enc, 'blocked': True, 'entry': entry, 'seed': seed})
    return cases


def tasks(tier, seed):
    return [{'cases': ch} for ch in core.chunks(enumerate_cases(tier, seed), 64)]


def run_task(task):
    acc = core.Acc()
    workdir = tempfile.mkdtemp(prefix='vf_c20_')
    try:
        for i, case in enumerate(task['cases']):
            if i == 0:
                acc.sample(case)
            check_case(case, acc, workdir)
    finally:
        shutil.rmtree(workdir, ignore_errors=True)
    return acc


def describe(tier, seed):
    return {
        'rule': 'CSV tables over the configured output columns (MTI, data elements, PDS sub-elements; derived columns are '
                'outputs only): MTI + each single column x 21 value variants (exact-width fixed text, variable text of '
                'length 1 / maximum, plain decimals 0 / 1-digit / maximum / 10^(w-1), complete ISO stamps from 1969 to '
                '2068, well-formed DE48 carriers; each crossed with the metacharacters , " "" ; leading and trailing '
                'space, mixed) ; MTI + every pair of columns; all columns with PDS columns or with DE48 (never both); '
                'rows 1..3 with per-row omitted cells; every calendar day of 2024 (every fifth of 1972 and 2068) with '
                'varying times of day in DE12; an alignment sweep (a first row growing from 1 to 999 characters in '
                'front of two rows of 1.0-2.0 kB, so the large records take every position relative to the 1012-byte '
                'blocks); x {latin_1, cp500, cp037} x {VBS, 1014} x {function entry '
                'points on StringIO/BytesIO, cli_run on real files, the argument-parser entry with default output '
                'names, the same with a JSON configuration file whose keys are sorted}. Oracle: the output CSV read by csv.DictReader has '
                'the same number of rows in the same order and every supplied non-empty cell is textually equal.',
        'assumptions': ['fixed-width text is supplied at exactly the field width; numbers without leading zeros; '
                        'date-times as complete YYYY-MM-DD HH:MM:SS stamps (dateutil fills missing parts from today)',
                        'cells contain no line breaks'],
        'bounds': {'rows': 3, 'columns': len(columns())},
        'exhaustive': True,
    }


def replay_case(case):
    acc = core.Acc()
    check_case(case, acc)
    return acc
