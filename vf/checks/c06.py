"""
C06 - IPM file round trip: messages written are the messages read back; instances do not influence each other.

E2 for the round trip (all sequences of length 1..3 over 8 message shapes, long cyclic files, codecs, formats,
configurations).  E3 for isolation: (a) every merge of the operation scripts of 2 writers + 2 readers (complete for
2 operations each, switch-bounded for 3), (b) line-level preemption-bounded exploration of pairs of real threads
under the baton scheduler.  Oracle for isolation: every instance's observation trace equals its solo run.
"""
import copy
import datetime
import io
import itertools

from vf import core, corpus, isogen
from vf.engine import sched
from vf.ref import iso_ref

PROPERTY = 'C06'
LEVEL = 'model_checking'

ENCS = ['latin_1', 'cp500', 'cp037', 'ascii']
SHAPES = ['minimal', 'typed', 'pds_small', 'pds_multi', 'icc_binary', 'de43', 'near_max', 'pan', 'blanks', 'pds_mixed',
          'file_header', 'file_trailer']


def shape_message(shape, i=0):
    """-> (cfg name, message)"""
    if shape == 'minimal':
        return 'PKG', {'MTI': '1644'}
    if shape == 'typed':
        return 'PKG', {'MTI': '1240', 'DE2': '5444330000001111', 'DE3': '000000', 'DE4': 0, 'DE5': 999999999999,
                       # by turns: the end of the two-digit window, 02:30 on the second Sunday of March 2021 / 2027
                       # (an hour a US-rule daylight-saving wall clock skips), 01:30 on the first Sunday of November
                       'DE12': [datetime.datetime(2068, 12, 31, 23, 59, 59), datetime.datetime(2021, 3, 14, 2, 30, 0),
                                datetime.datetime(2027, 3, 14, 2, 59, 59), datetime.datetime(2021, 11, 7, 1, 30, 0)][i % 4],
                       'DE26': 5411, 'DE71': i + 1}
    if shape == 'pds_small':
        return 'PKG', {'MTI': '1240', 'DE2': '5444330000001111', 'PDS0023': 'CT6', 'PDS0052': '', 'PDS0158': 'X' * 12}
    if shape == 'pds_multi':
        return 'PKG', {'MTI': '1240', 'PDS0001': 'a' * 985, 'PDS0002': 'b' * 7, 'PDS0003': 'c' * 992, 'PDS9999': 'z',
                       'DE49': '036'}
    if shape == 'icc_binary':
        tlvs = [(b'\x9f\x26', bytes(range(0, 128))), (b'\x82', bytes(range(128, 256))), (b'\x95', b''),
                (b'\x5f\x2a', b'\x00\x00')]
        return 'PKG', {'MTI': '1240', 'DE3': '123456', 'DE55': iso_ref.icc_build(tlvs), 'DE63': 'L' * 16}
    if shape == 'de43':
        # the merchant text rotates with the record index: plain, name / address / suburb padded with blanks before
        # the separators (as fixed-layout sources produce it), one-character parts, a text the pattern does not match
        texts = ['BIG BOBS\\80 KERNDALE ST\\DANERLEY\\3103      VICAUS',
                 'SHOP   \\1 HIGH ST   \\TOWN   \\AB1 2CD   ENGGBR',
                 'A\\B\\C\\1234567890XYZAUS', 'NAME ONLY NO SEPARATORS',
                 'CAFE  BAR    \\ 12  MAIN   RD  \\  OLD  TOWN  \\  90210    CA USA']
        return 'PKG', {'MTI': '1240', 'DE42': 'MERCHANT0000001', 'DE43': texts[i % len(texts)], 'DE49': '036'}
    if shape == 'near_max':
        m = {'MTI': '1240', 'DE2': '5' * 19, 'DE54': 'A' * 999, 'DE63': 'B' * 999, 'DE72': 'C' * 999, 'DE111': 'D' * 999,
             'DE127': 'E' * 999, 'DE55': iso_ref.icc_build(isogen.icc_of_length(900, 3))}
        return 'PKG', m
    if shape == 'blanks':
        # long runs of blanks and of '@': byte 0x40 under EBCDIC resp. ASCII, i.e. content that looks like 1014 fill
        return 'PKG', {'MTI': '1240', 'DE3': '      ', 'DE72': ((' ' * 40 + 'x') * 25)[:990 + i % 9],
                       'DE54': (('@' * 30 + 'y') * 30)[:800 + (i * 7) % 100], 'DE127': ' ' * (100 + i % 50),
                       'PDS0158': ' ' * 12}
    if shape == 'file_header':
        # the administrative messages every clearing file carries (MTI 1644, function code 697 = header, 695 =
        # trailer with the message count); one physical file may hold several logical files, so they occur anywhere
        return 'PKG', {'MTI': '1644', 'DE24': '697', 'PDS0105': '0012406010000011111%06d' % i, 'PDS0122': 'T',
                       'DE71': i + 1}
    if shape == 'file_trailer':
        return 'PKG', {'MTI': '1644', 'DE24': '695', 'PDS0105': '0012406010000011111%06d' % i,
                       'PDS0301': '%016d' % (1000 + i), 'PDS0306': '%08d' % (i + 1), 'DE71': i + 1}
    if shape == 'pds_mixed':
        # PDSxxxx keys (they go into the first carrier) next to later carriers supplied ready-made by the caller
        return 'PKG', {'MTI': '1240', 'DE2': '5444330000001111', 'PDS0023': 'CT6', 'PDS0158': 'ABCDEFGHIJKL',
                       'DE62': '0001002AB0002000', 'DE123': '0300003xyz', 'DE49': '036'}
    if shape == 'pan':
        return 'CUSTOM', {'MTI': '1240', 'DE2': '5444331234561111', 'DE32': '123456789012', 'DE7': 1234,
                          'DE49': '036'}
    raise core.Broken(shape)


def expected_after(cfg, msg):
    exp = {}
    for k, v in msg.items():
        if k.startswith('DE'):
            exp[k] = isogen.expected_value(cfg[k[2:]], v)
        else:
            exp[k] = v
    return exp


def write_file(msgs, cfgname, enc, blocked):
    from cardutil import mciipm
    cfg = corpus.cfg_of(cfgname)
    f = io.BytesIO()
    with mciipm.IpmWriter(f, encoding=enc, blocked=blocked, iso_config=None if cfgname == 'PKG' else cfg) as w:
        for m in msgs:
            w.write(copy.deepcopy(m))
    return f.getvalue()


def check_roundtrip_case(case, acc):
    from cardutil import mciipm
    seq = case['seq']
    cfgname = 'CUSTOM' if case['custom'] else 'PKG'
    cfg = corpus.cfg_of(cfgname)
    msgs = []
    for i, sh in enumerate(seq if isinstance(seq, list) else
                           [SHAPES[(j * seq['step']) % len(SHAPES)] for j in range(seq['count'])]):
        c, m = shape_message(sh, i)
        if c == 'CUSTOM' and cfgname != 'CUSTOM':
            m = {k: v for k, v in m.items() if k != 'DE7'}
        m = dict(m)
        if 'DE71' in cfg and i:
            m['DE71'] = i + 1
        msgs.append(m)
    key = (tuple(seq) if isinstance(seq, list) else (seq['count'], seq['step']), case['enc'], case['blocked'],
           case['custom'])
    acc.case(key, nontrivial=True, outcome='%s/%s' % ('1014' if case['blocked'] else 'vbs', case['enc']))
    try:
        data = write_file(msgs, cfgname, case['enc'], case['blocked'])
        back = list(mciipm.IpmReader(io.BytesIO(data), encoding=case['enc'], blocked=case['blocked'],
                                     iso_config=None if cfgname == 'PKG' else cfg))
    except Exception as ex:
        acc.viol('c06.roundtrip.exception', case, repr(ex), '%d messages read back' % len(msgs))
        return
    if len(back) != len(msgs):
        acc.viol('c06.roundtrip.count', case, '%d records read' % len(back), '%d written' % len(msgs))
        return
    for i, (m, b) in enumerate(zip(msgs, back)):
        exp = expected_after(cfg, m)
        carriers = set('DE%d' % x for x in iso_ref.pds_carrier_bits(cfg)) if any(k.startswith('PDS') for k in m) \
            else set()
        for k, v in exp.items():
            if b.get(k, '<absent>') != v:
                acc.viol('c06.roundtrip.value', case, 'record %d %s=%r' % (i + 1, k, b.get(k, '<absent>')),
                         '%s=%r' % (k, v), 'message read back differs from the message written')
                return
        for k in b:
            if k not in exp and not isogen.allowed_extra(k) and k not in carriers:
                acc.viol('c06.roundtrip.extra_key', case, 'record %d has %s' % (i + 1, k), 'documented extras only')
                return


def check_inplace_roundtrip(case, acc):
    """files written and read back one after another under the SAME caller-owned configuration object, which is
    edited in place between files (which elements carry PDS data, a processor, a type)"""
    from cardutil import mciipm
    cfg = copy.deepcopy(corpus.cfg_of('CUSTOM'))
    acc.case(('rt_inplace', case['enc'], case['blocked'], repr(case['edits'])), nontrivial=True, outcome='rt_inplace')
    msgs = [{'MTI': '1240', 'DE3': '123456', 'PDS0023': 'CT6', 'PDS0158': 'X' * 900, 'PDS0165': 'Y' * 400, 'DE49': '036'},
            {'MTI': '1240', 'DE2': '5444330000001111', 'DE7': 7, 'PDS0001': 'a'},
            {'MTI': '1644', 'DE71': 3}]
    for i, edits in enumerate(case['edits']):
        for e in edits:
            isogen.apply_edit(cfg, e)
        try:
            f = io.BytesIO()
            with mciipm.IpmWriter(f, encoding=case['enc'], blocked=case['blocked'], iso_config=cfg) as w:
                for m in msgs:
                    w.write(copy.deepcopy(m))
            back = list(mciipm.IpmReader(io.BytesIO(f.getvalue()), encoding=case['enc'], blocked=case['blocked'],
                                         iso_config=cfg))
        except Exception as ex:
            acc.viol('c06.roundtrip.inplace.exception', case, 'file %d: %r' % (i + 1, ex), 'messages read back')
            return
        if len(back) != len(msgs):
            acc.viol('c06.roundtrip.inplace.count', case, '%d records' % len(back), '%d' % len(msgs))
            return
        for m, b in zip(msgs, back):
            exp = expected_after(cfg, m)
            for k, v in exp.items():
                if b.get(k, '<absent>') != v:
                    acc.viol('c06.roundtrip.inplace.value', case, 'file %d %s=%r' % (i + 1, k, b.get(k, '<absent>')),
                             '%s=%r' % (k, v), 'written and read under the same configuration object after in-place '
                             'edits %s' % edits)
                    return


INPLACE_EDITS = [
    [[], [['del', 48, 'field_processor'], ['set', 54, 'field_processor', 'PDS']],
     [['set', 48, 'field_processor', 'PDS'], ['del', 54, 'field_processor']], []],
    [[['del', 48, 'field_processor'], ['del', 62, 'field_processor'], ['set', 72, 'field_processor', 'PDS'],
      ['set', 111, 'field_processor', 'PDS']], [['set', 48, 'field_processor', 'PDS']], []],
    [[], [['del', 2, 'field_processor']], [['set', 2, 'field_processor', 'PAN']], []],
]


# ---- isolation, operation level -----------------------------------------------------------------------------

def good_file(enc, blocked, n=3, salt=0):
    msgs = [{'MTI': '1240', 'DE2': '5%015d' % (i * 31 + salt), 'DE4': i + salt, 'PDS0023': 'P%d%d' % (i, salt),
             'DE72': 'good %d/%d ' % (i, salt) * 3} for i in range(n)]
    return write_file(msgs, 'PKG', enc, blocked), msgs


def bad_file(enc, blocked):
    data, msgs = good_file(enc, False, 3, salt=7)
    # corrupt the MTI of record 2 inside the VBS stream, then block
    from vf.ref import vbs_ref, blk_ref
    recs, offs, _ = vbs_ref.parse_prefix(data)
    recs[1] = 'AB12'.encode(enc) + recs[1][4:]
    stream = vbs_ref.frame(recs)
    return blk_ref.block(stream) if blocked else stream


class Instance(object):
    """one reader or writer with a fixed script of operations and a trace of what it observed"""

    def __init__(self, kind, nops):
        from cardutil import mciipm
        self.kind = kind
        self.trace = []
        self.nops = nops
        if kind == 'W1':
            self.f = io.BytesIO()
            self.obj = mciipm.IpmWriter(self.f, blocked=True)
        elif kind == 'W2':
            self.f = io.BytesIO()
            self.obj = mciipm.IpmWriter(self.f, encoding='cp500', blocked=False)
        elif kind == 'W3':
            self.f = io.BytesIO()
            self.obj = mciipm.VbsWriter(self.f, blocked=True)
        elif kind == 'R1':
            self.obj = mciipm.IpmReader(io.BytesIO(good_file('latin_1', True)[0]), blocked=True)
        elif kind == 'R2':
            self.obj = mciipm.IpmReader(io.BytesIO(bad_file('cp500', False)), encoding='cp500')
        elif kind == 'R3':
            self.obj = mciipm.VbsReader(io.BytesIO(good_file('latin_1', False, 4, salt=3)[0]))
        self.step = 0

    def op(self):
        from cardutil import mciipm
        k = self.kind
        i = self.step
        self.step += 1
        if k[0] == 'W':
            last = (i == self.nops - 1)
            if last:
                self.obj.close()
                self.trace.append(('closed', self.f.getvalue()))
            else:
                if k == 'W3':
                    self.obj.write(b'raw record %d ' % i * (40 + 400 * i))
                else:
                    self.obj.write({'MTI': '1240', 'DE2': '4%015d' % (i + ord(k[1])), 'DE72': (k * 600)[:100 + 400 * i],
                                    'PDS0001': k + str(i)})
                self.trace.append(('wrote', len(self.f.getvalue())))
        else:
            try:
                rec = next(self.obj)
                res = ('rec', rec)
            except StopIteration:
                res = ('stop',)
            except mciipm.MciIpmDataError as ex:
                res = ('dataerror', ex.record_number, ex.binary_context_data)
            except Exception as ex:
                res = ('exception', repr(ex))
            self.trace.append((res, self.obj.record_number, self.obj.last_record))


_SOLO = {}


def solo_trace(kind, nops):
    if (kind, nops) not in _SOLO:
        inst = Instance(kind, nops)
        for _ in range(nops):
            inst.op()
        _SOLO[(kind, nops)] = inst.trace
    return _SOLO[(kind, nops)]


def check_merge_case(case, acc):
    kinds, nops, order = case['kinds'], case['nops'], case['order']
    insts = [Instance(k, nops) for k in kinds]
    acc.transitions += len(order)
    acc.case(('merge', tuple(kinds), nops, tuple(order)), nontrivial=True, outcome='merge')
    try:
        for i in order:
            insts[i].op()
    except Exception as ex:
        acc.viol('c06.isolation.ops.exception', case, repr(ex), 'operations behave as in a solo run')
        return
    for inst in insts:
        want = solo_trace(inst.kind, nops)
        if inst.trace != want:
            j = [x for x in range(len(want)) if x >= len(inst.trace) or inst.trace[x] != want[x]][0]
            acc.viol('c06.isolation.ops.%s' % ('reader' if inst.kind[0] == 'R' else 'writer'), case,
                     core.short(inst.trace[j] if j < len(inst.trace) else None, 160), core.short(want[j], 160),
                     'instance %s behaves differently when interleaved with %s' % (inst.kind, kinds))
            return


# ---- isolation, line level ------------------------------------------------------------------------------------

PAIRS = ['next_next', 'write_write', 'write_next', 'dumps_loads']
SMALL = {'MTI': '1240', 'DE2': '5444330000001111', 'DE4': 15, 'DE12': datetime.datetime(2020, 1, 2, 3, 4, 5),
         'PDS0023': 'CT6', 'DE55': iso_ref.icc_build([(b'\x9f\x26', b'\x01\x02'), (b'\x82', b'')]),
         'DE43': 'A\\B\\C\\1234567890XYZAUS'}


def pair_bodies(pair):
    """-> (bodies, context): two callables for the two threads, fresh objects each time"""
    from cardutil import mciipm, iso8583

    def reader_body(kind):
        def run():
            inst = Instance(kind, 3)
            for _ in range(3):
                inst.op()
            return inst.trace
        return run

    def writer_body(kind):
        def run():
            inst = Instance(kind, 3)
            for _ in range(3):
                inst.op()
            return inst.trace
        return run

    if pair == 'next_next':
        return [reader_body('R1'), reader_body('R2')], None
    if pair == 'write_write':
        return [writer_body('W1'), writer_body('W2')], None
    if pair == 'write_next':
        return [writer_body('W1'), reader_body('R2')], None
    if pair == 'dumps_loads':
        data = iso_ref.encode(SMALL, corpus.cfg_of('PKG'), 'cp500', False)[0]

        def d():
            return iso8583.dumps(copy.deepcopy(SMALL))

        def l_():
            return iso8583.loads(data, encoding='cp500')
        return [d, l_], None
    raise core.Broken(pair)


_SOLO_PAIR = {}


def solo_pair(pair):
    if pair not in _SOLO_PAIR:
        bodies, _ = pair_bodies(pair)
        _SOLO_PAIR[pair] = [('ok', b()) for b in bodies]
    return _SOLO_PAIR[pair]


def observe(res, ctx):
    return res


def judge_schedule(pair, schd, obs, acc, points):
    want = solo_pair(pair)
    acc.transitions += points
    acc.case(('sched', pair, schd['first'], tuple(schd['preempt'])), nontrivial=len(schd['preempt']) > 0,
             outcome='sched:%d' % len(schd['preempt']))
    for t in (0, 1):
        if obs[t] != want[t]:
            acc.viol('c06.isolation.lines.%s' % pair, {'kind': 'sched', 'pair': pair, 'sched': schd},
                     core.short(obs[t], 200), core.short(want[t], 200),
                     'thread %d of %s observes something else than in its solo run under schedule %s' % (t, pair, schd))
            return


def run_sched_task(task, acc):
    pair = task['pair']
    mk = lambda: pair_bodies(pair)   # noqa
    roots = [core.REPO + '/cardutil']
    if task.get('zero'):
        for first in (0, 1):
            schd = {'first': first, 'preempt': []}
            o1, pts = sched.run_schedule(mk, roots, observe, schd)
            o2, pts2 = sched.run_schedule(mk, roots, observe, schd)
            judge_schedule(pair, schd, o1, acc, pts)
            if o1 != o2:
                # the same schedule on fresh objects gave another observation: state survives outside the
                # instances. Judge the second run too (it cannot equal the solo run if the first one did).
                judge_schedule(pair, schd, o2, acc, pts2)
                acc.count('schedules_not_reproducible')
        return
    n = 0
    skip1 = task.get('skip1')
    for schd, obs, pts in sched.explore_slice(mk, roots, task['bound'], observe, task['first'], task['indexes'],
                                              second_stride=task.get('stride2', 1)):
        if skip1 and len(schd['preempt']) == 1:
            continue          # the one-preemption schedules are covered by the bound-1 tasks
        judge_schedule(pair, schd, obs, acc, pts)
        if n == 0:
            acc.sample({'pair': pair, 'schedule': schd, 'scheduling_points': pts})
            # determinism: the same schedule twice gives identical observations
            o2, pts2 = sched.run_schedule(mk, roots, observe, schd)
            if o2 != obs:
                judge_schedule(pair, schd, o2, acc, pts2)
                acc.count('schedules_not_reproducible')
        n += 1


# ---- plumbing ------------------------------------------------------------------------------------------------------

def replay_into(case, acc):
    k = case.get('kind')
    if k == 'merge':
        check_merge_case(case, acc)
    elif k == 'rt_inplace':
        check_inplace_roundtrip(case, acc)
    elif k == 'sched':
        mk = lambda: pair_bodies(case['pair'])   # noqa
        obs, pts = sched.run_schedule(mk, [core.REPO + '/cardutil'], observe, case['sched'])
        judge_schedule(case['pair'], case['sched'], obs, acc, pts)
    else:
        check_roundtrip_case(case, acc)


def tasks(tier, seed):
    ts = []
    # round trip
    rt = []
    seqs = [list(t) for n in (1, 2, 3) for t in itertools.product(SHAPES, repeat=n)]
    for si, seq in enumerate(seqs):
        custom = 'pan' in seq
        for ei, enc in enumerate(ENCS):
            for blocked in (False, True):
                if tier == 'quick' and len(seq) == 3 and (si + ei + blocked) % 4:
                    continue
                rt.append({'kind': 'rt', 'seq': seq, 'enc': enc, 'blocked': blocked, 'custom': custom})
    for count, step in ((40, 1), (300, 3), (40, 5)):
        for enc in ENCS:
            for blocked in (False, True):
                for custom in (False, True):
                    rt.append({'kind': 'rt', 'seq': {'count': count, 'step': step}, 'enc': enc, 'blocked': blocked,
                               'custom': custom})
    for ch in core.spread(rt, 64):
        ts.append({'t': 'cases', 'cases': ch})
    # files beyond 1 MiB ("any number of records"): 4500 messages of mixed shapes, ~1.4 MB
    if core.AXIS == '':
        for enc, blocked, custom in (('cp500', True, False), ('latin_1', False, True), ('cp037', True, True)):
            ts.append({'t': 'cases', 'cases': [{'kind': 'rt', 'seq': {'count': 4500, 'step': 1 + 3 * blocked},
                                                'enc': enc, 'blocked': blocked, 'custom': custom}]})
        # ... and beyond 4 and 8 MiB (16000 / 30000 messages)
        ts.append({'t': 'cases', 'cases': [{'kind': 'rt', 'seq': {'count': 16000, 'step': 1}, 'enc': 'cp500',
                                            'blocked': True, 'custom': False}]})
        if tier == 'thorough':
            ts.append({'t': 'cases', 'cases': [{'kind': 'rt', 'seq': {'count': 30000, 'step': 5}, 'enc': 'latin_1',
                                                'blocked': True, 'custom': False}]})
    ts.append({'t': 'cases', 'cases': [{'kind': 'rt_inplace', 'enc': enc, 'blocked': blocked, 'edits': edits}
                                       for edits in INPLACE_EDITS for enc in ('latin_1', 'cp500')
                                       for blocked in (False, True)]})
    # operation-level merges: complete for 2 ops per instance, switch-bounded for 3
    merges = []
    for kinds in (['W1', 'W2', 'R1', 'R2'], ['W3', 'W1', 'R3', 'R2']):
        for order in sched.merges([2, 2, 2, 2]):
            merges.append({'kind': 'merge', 'kinds': kinds, 'nops': 2, 'order': list(order)})
        for order in sched.merges([3, 3, 3, 3], max_switches=2 if tier == 'quick' else 3):
            merges.append({'kind': 'merge', 'kinds': kinds, 'nops': 3, 'order': list(order)})
    for kinds in (['R1', 'R1', 'R2', 'R2'], ['W1', 'W1', 'W3', 'W3']):
        for order in sched.merges([3, 3, 3, 3], max_switches=2):
            merges.append({'kind': 'merge', 'kinds': kinds, 'nops': 3, 'order': list(order)})
    for ch in core.spread(merges, 64):
        ts.append({'t': 'cases', 'cases': ch})
    # line-level schedules
    bound = 1 if tier == 'quick' else 2
    roots = [core.REPO + '/cardutil']
    for pair in PAIRS:
        ts.append({'t': 'sched', 'pair': pair, 'zero': True})
        for first in (0, 1):
            n_first, total = sched.count_points(lambda: pair_bodies(pair), roots, first)
            idx = list(range(n_first))
            for ch in core.spread(idx, 24 if tier == 'quick' else 32):
                ts.append({'t': 'sched', 'pair': pair, 'first': first, 'indexes': ch, 'bound': 1})
            if tier == 'thorough' and not core.AXIS:
                # (main pass only: the environment axes repeat the one-preemption schedules)
                # two preemptions are quadratic in the number of points: every placement for the small pair,
                # a regular 7 x 5 grid of (first, second) points for the file pairs
                full = pair == 'dumps_loads'
                idx2 = idx if full else idx[::7]
                for ch in core.spread(idx2, 64):
                    ts.append({'t': 'sched', 'pair': pair, 'first': first, 'indexes': ch, 'bound': 2,
                               'stride2': 1 if full else 5, 'skip1': True})
    return ts


def run_task(task):
    acc = core.Acc()
    if task['t'] == 'cases':
        for i, case in enumerate(task['cases']):
            if i == 0:
                s = dict(case)
                acc.sample(s)
            replay_into(case, acc)
    else:
        run_sched_task(task, acc)
    return acc


def run(tier, seed):
    desc = describe(tier, seed)
    ts = tasks(tier, seed)
    acc = core.Acc()
    for r in core.pmap(core.safe_task(run_task, PROPERTY, tier, seed), [(i, ts[i]) for i in core.selected(len(ts))]):
        acc.merge(r)
    merges_n = sum(v for k, v in acc.outcomes.items() if k == 'merge')
    scheds_n = sum(v for k, v in acc.outcomes.items() if str(k).startswith('sched'))
    acc.states = merges_n + scheds_n       # complete executions (each a distinct schedule / merge)
    return acc, desc, {'tasks': len(ts), 'merges_executed': merges_n, 'thread_schedules_executed': scheds_n,
                       'explanation': 'states = complete executions explored (operation merges + thread schedules); '
                                      'transitions = operations / scheduling points executed on the real code'}


def describe(tier, seed):
    return {
        'rule': 'Round trip: every sequence of length 1..3 over 9 message shapes (minimal, typed, small PDS, '
                'multi-carrier PDS, binary ICC with all 256 byte values, DE43, 5.9 kB near-maximum record, PAN-masked '
                'custom configuration, long runs of blanks and @ = byte 0x40 in EBCDIC / ASCII)%s plus cyclic files of 40 and 300 records, x {latin_1, cp500, cp037, ascii} x '
                '{VBS, 1014} x {packaged, custom}; each message read back must carry every written key with an equal '
                'value and only documented extras; files written and read one after another under ONE custom '
                'configuration object edited in place between files. Isolation (a): all 2520 merges of 2 operations each of 2 writers '
                '+ 2 readers (one reader meets a bad record), all merges with <= %d switches of 3 operations each, for '
                'two instance sets plus same-kind sets; (b) real threads under a baton scheduler, scheduling points = '
                'line events in cardutil/*.py: pairs next||next, write||write, write||next, dumps||loads, every '
                'placement of 1 preemption%s; each schedule runs to completion; a schedule is replayed twice '
                'to prove determinism. Oracle: each instance\'s trace (returned records, exceptions with record '
                'number and context, record_number / last_record after each step, final file bytes) equals its solo '
                'run.' % (' (quick: a quarter of the length-3 sequences per codec/format)' if tier == 'quick' else '',
                          2 if tier == 'quick' else 3,
                          '' if tier == 'quick' else ' and of 2 preemptions (every placement for dumps||loads; for the '
                          'file pairs a regular grid: every 7th point for the first, every 5th point of the other '
                          'thread\'s following run for the second)'),
        'assumptions': ['thread switches are explored at line granularity inside cardutil (not per bytecode)',
                        'the library holds no locks; logging is disabled so its handler locks are never contended'],
        'bounds': {'preemptions': 1 if tier == 'quick' else 2, 'ops_per_instance': 3, 'instances': 4},
        'exhaustive': tier == 'quick',
        'caps_hit': [] if tier == 'quick' else ['2-preemption schedules of the three file pairs are explored on a '
                                                'regular 7 x 5 grid of scheduling points, not at every placement '
                                                '(1-preemption schedules and all 2-preemption schedules of '
                                                'dumps||loads are complete)'],
    }


def replay_case(case):
    acc = core.Acc()
    replay_into(case, acc)
    return acc


def selfcheck():
    iso_ref.selfcheck()
