"""
C09 - A file cut short at any byte yields only its complete records, then stops/errors.

E4 (crash-point enumeration): for every file of the family, EVERY truncation offset 0..len(file) is executed
against the real readers; expected = the records wholly contained in the surviving payload.
"""
import io

from vf import core
from vf.ref import blk_ref, vbs_ref

PROPERTY = 'C09'
LEVEL = 'fault_enumeration'

SINGLES = [1, 2, 3, 4, 5, 100, 1003, 1004, 1007, 1008, 1009, 1011, 1012, 1013, 1016, 2019, 2020, 2021, 2022, 2024, 2025,
           3030, 3032, 3033, 3034, 5056, 5057, 5058, 6000]
PAIR_AL = [1, 4, 1004, 1008, 1012, 1016, 2020]
TRIPLES = [[1, 1, 1], [1008, 1008, 1008], [1004, 4, 1004], [1012, 1012, 1012], [3, 2021, 1], [1000, 20, 1000],
           [2020, 1, 2020]]
LONG = [[700, 1, 1300, 4, 1008, 1012, 250, 250, 1004, 2000, 3, 500]]
CODINGS = ['pos', 'zero', 'fill', 'ws']


def content(coding, n, off, seed):
    if coding == 'pos':
        return blk_ref.position_code(off % 251 + n, seed)[off % 251:]
    if coding == 'ws':
        return (b' \n\t\r' * (n // 4 + 1))[:n]
    if coding.startswith('cyc'):          # every byte value, starting at the value given: 'cyc128' = 80 81 82 ...
        start = int(coding[3:])
        return bytes((start + i) % 256 for i in range(n))
    return (b'\x00' if coding == 'zero' else b'\x40') * n


def ipm_messages(count, seed):
    msgs = []
    for i in range(count):
        m = {'MTI': '1%03d' % (240 + i), 'DE2': '5%015d' % (i * 7919 + seed), 'DE3': '%06d' % i,
             'DE4': 1000 + i, 'DE72': ('rec%d ' % i) * (5 + 40 * (i % 5))}
        if i % 2:
            m['PDS0023'] = 'P%d' % i
            m['DE55'] = bytes([0x9f, 0x26, 0x02, i % 256, 0xff, 0x82, 0x01, 0x40])
        msgs.append(m)
    return msgs


def build_file(spec):
    """-> (file bytes, expected list (raw records), blocked, kind)"""
    kind, blocked = spec['kind'], spec['blocked']
    if kind == 'vbs':
        recs, off = [], 0
        for n in spec['lens']:
            recs.append(content(spec['coding'], n, off, spec.get('seed', 0)))
            off += n
    else:
        from cardutil import iso8583
        recs = [iso8583.dumps(dict(m), encoding=spec['encoding']) for m in ipm_messages(spec['count'],
                                                                                         spec.get('seed', 0))]
    stream = vbs_ref.frame(recs, terminator=spec.get('terminator', True))
    data = blk_ref.block(stream) if blocked else stream
    return data, recs


def read_all(data, spec):
    """iterate the real reader; -> (items, end) with end in {'stop', 'dataerror', 'exception:<repr>'}"""
    from cardutil import mciipm
    from vf import fileobjs
    f, done = fileobjs.reader(spec.get('fobj', 'bytesio'), data)
    try:
        return _read_all(f, spec, mciipm)
    finally:
        done()


def _read_all(f, spec, mciipm):
    if spec['kind'] == 'vbs':
        rd = mciipm.VbsReader(f, blocked=spec['blocked'])
    else:
        rd = mciipm.IpmReader(f, encoding=spec['encoding'], blocked=spec['blocked'])
    items = []
    try:
        for it in rd:
            items.append(it)
            if len(items) > 5000:
                return items, 'exception:more than 5000 records'
        return items, 'stop'
    except mciipm.MciIpmDataError:
        return items, 'dataerror'
    except Exception as ex:
        return items, 'exception:%r' % ex


def check_cut(spec, data, recs, decoded, cut, acc):
    surviving = data[:cut]
    stream = blk_ref.payload(surviving) if spec['blocked'] else surviving
    exp, offs, stop = vbs_ref.parse_prefix(stream)
    if exp != recs[:len(exp)]:
        raise core.Broken('reference parser disagrees with the generator')
    items, end = read_all(surviving, spec)
    acc.case((spec['id'], cut), nontrivial=cut < len(data), outcome=end[:9] + ':' + stop)
    case = dict(spec, cut=cut)
    if end.startswith('exception'):
        acc.viol('c09.exception.%s' % spec['kind'], case, end, 'StopIteration or MciIpmDataError',
                 'cut at %d of %d' % (cut, len(data)))
        return
    want = exp if spec['kind'] == 'vbs' else decoded[:len(exp)]
    if items != want:
        n = len(items)
        if n > len(want):
            why = 'delivered %d records, only %d are wholly contained (extra one has %s)' % (
                n, len(want), 'len %d' % len(items[len(want)]) if spec['kind'] == 'vbs' else 'keys')
            sig = 'c09.partial_or_invented'
        elif n < len(want):
            why = 'delivered %d records, %d are wholly contained in the surviving bytes' % (n, len(want))
            sig = 'c09.lost_record'
        else:
            why = 'a delivered record differs from the one written'
            sig = 'c09.altered_record'
        acc.viol(sig + '.' + ('blocked' if spec['blocked'] else 'vbs'), case, why, '%d records unchanged' % len(want),
                 'cut at %d of %d (%s)' % (cut, len(data), stop))


def run_task(task):
    acc = core.Acc()
    for spec in task['specs']:
        data, recs = build_file(spec)
        decoded = None
        if spec['kind'] == 'ipm':
            from cardutil import iso8583
            decoded = [iso8583.loads(r, encoding=spec['encoding']) for r in recs]
        lo, hi = spec.get('lo', 0), spec.get('hi', len(data))
        for cut in range(lo, min(hi, len(data)) + 1):
            check_cut(spec, data, recs, decoded, cut, acc)
        acc.sample({'file': {k: v for k, v in spec.items() if k not in ('lo', 'hi')}, 'file_len': len(data),
                    'cuts': [lo, min(hi, len(data))]})
    return acc


def specs(tier, seed):
    out = []

    def add(**kw):
        kw['id'] = len(out)
        kw['seed'] = seed
        out.append(kw)
    lists = [[a] for a in SINGLES] + [[a, b] for a in PAIR_AL for b in PAIR_AL] + TRIPLES + LONG
    for lens in lists:
        for blocked in (False, True):
            codings = CODINGS if (len(lens) <= 2 and (tier == 'thorough' or lens[0] in (4, 1008, 1012, 2020))) \
                else ['pos']
            for coding in codings:
                add(kind='vbs', lens=lens, blocked=blocked, coding=coding)
    # every record length 1..300 (the low length byte takes every value) with content that runs through every
    # byte value from a start that moves with the length
    for n in range(1, 301):
        add(kind='vbs', lens=[n], blocked=bool(n % 2), coding='cyc%d' % ((n * 37) % 256))
        if n % 16 == 0:
            add(kind='vbs', lens=[n, 300 - n + 1], blocked=not bool(n % 2), coding='cyc%d' % ((n * 11) % 256))
    # the same cuts read from other kinds of file object: a non-seekable stream (pipe, stdin: tell()/seek() raise),
    # an object that has nothing but read(), a real file
    for lens in ([4], [1008], [1012], [2020], [1004, 4], [1012, 1012], [3, 2021, 1]):
        for blocked in (False, True):
            for fobj in ('pipe', 'minimal'):
                add(kind='vbs', lens=lens, blocked=blocked, coding='pos', fobj=fobj)
    for fobj in ('smallbuf', 'zip', 'mmap'):
        for blocked in (False, True):
            add(kind='vbs', lens=[1004, 4], blocked=blocked, coding='pos', fobj=fobj)
            add(kind='vbs', lens=[600], blocked=blocked, coding='pos', fobj=fobj)
    add(kind='vbs', lens=[1008, 1012], blocked=True, coding='pos', fobj='file')
    add(kind='vbs', lens=[5, 600], blocked=False, coding='pos', fobj='file')
    for fobj in ('pipe', 'minimal', 'file'):
        for blocked in (False, True):
            add(kind='ipm', count=2, encoding='cp500', blocked=blocked, fobj=fobj)
    add(kind='vbs', lens=[1008, 1012], blocked=True, coding='pos', terminator=False)
    add(kind='vbs', lens=[5, 6], blocked=False, coding='pos', terminator=False)
    for enc in ('latin_1', 'cp500'):
        for count in ((1, 2, 7) if tier == 'quick' else (1, 2, 3, 7, 20)):
            for blocked in (False, True):
                add(kind='ipm', count=count, encoding=enc, blocked=blocked)
    return out


def tasks(tier, seed):
    # split long files into offset ranges so that the 16 workers are evenly loaded
    pieces = []
    for sp in specs(tier, seed):
        data, _ = build_file(sp)
        n = len(data)
        step = 1500
        for lo in range(0, n + 1, step):
            pieces.append(dict(sp, lo=lo, hi=min(lo + step - 1, n)))
    return [{'specs': ch} for ch in core.spread(pieces, 96)]


def describe(tier, seed):
    sp = specs(tier, seed)
    return {
        'rule': '%d files (VBS, 1014-blocked VBS, IPM in latin_1/cp500; record lengths from a block-boundary alphabet: '
                'singles, all pairs over %d lengths, triples, a 12-record 8+-block file; contents position-coded, '
                'all-0x00, all-0x40, whitespace; every single record length 1..300 with content running through every '
                'byte value; two files without terminator; 34 of the files also read from a non-seekable stream, from an object that only has read() and from a real file) x EVERY truncation offset 0..len(file). Expected '
                'records = those whose prefix+data lie wholly inside the surviving payload (reference parser); the '
                'reader must deliver exactly those and then stop or raise MciIpmDataError. A case = (file, offset); '
                'non-trivial when the cut removes at least one byte.' % (len(sp), len(PAIR_AL)),
        'assumptions': ['IPM record content is compared with loads() of the intact record (framing, not the codec, '
                        'is judged here)', 'surviving payload of a cut blocked file = the <=1012 leading bytes of '
                        'each surviving (partial) block'],
        'bounds': {'files': len(sp), 'offsets': 'all'},
        'exhaustive': True,
    }


def replay_case(case):
    acc = core.Acc()
    spec = {k: v for k, v in case.items() if k != 'cut'}
    data, recs = build_file(spec)
    decoded = None
    if spec['kind'] == 'ipm':
        from cardutil import iso8583
        decoded = [iso8583.loads(r, encoding=spec['encoding']) for r in recs]
    check_cut(spec, data, recs, decoded, case['cut'], acc)
    return acc


def selfcheck():
    blk_ref.selfcheck()
    vbs_ref.selfcheck()
