"""
C19 - Encoding/format conversion tools preserve every record and are reversible.
E2: writer-produced IPM files and arbitrary-byte parameter files x every ordered codec pair x {vbs,1014}^2 x four
tools x every entry point (function with file objects, cli_run on real files, argparse entry with argv).
"""
import contextlib
import copy
import io
import itertools
import os
import shutil
import sys
import tempfile

from vf import core, corpus
from vf.checks import c06
from vf.ref import blk_ref, iso_ref, vbs_ref

PROPERTY = 'C19'
LEVEL = 'exploration'

CODECS = ['latin_1', 'cp500', 'cp037']
FORMATS = ['vbs', '1014']
SHAPES = [s for s in c06.SHAPES if s != 'pan'] + ['punct']
# every printable ASCII punctuation character plus two Latin-1 signs: among them are the characters that latin_1,
# cp500 and cp037 place at different byte values ([ ] ! ^ | cent not)
PUNCT = ''.join(chr(c) for c in range(32, 127) if not chr(c).isalnum()) + '\xa2\xac\xa3\xa7'


def ipm_file(seq, enc, fmt):
    msgs = []
    for i, sh in enumerate(seq):
        if sh == 'punct':
            m = {'MTI': '1240', 'DE2': '5444330000001111', 'DE72': PUNCT * 3, 'DE42': '[SHOP!] ^|#0001 ',
                 'DE43': 'A[1]!\\B^|\\C\xa2\xac\\1234567890XYZAUS', 'PDS0023': '[!]', 'PDS0158': PUNCT}
        else:
            _, m = c06.shape_message(sh, i)
        msgs.append(m)
    if len(seq) % 2 == 0:
        # every other file is laid out by the REFERENCE encoder instead of the library's own writer ("an IPM file" need
        # not come from this process): a writer and a converter that are wrong in the same way cannot hide each other
        try:
            recs = [iso_ref.encode(copy.deepcopy(m), corpus.cfg_of('PKG'), enc, False)[0] for m in msgs]
            stream = vbs_ref.frame(recs)
            return blk_ref.block(stream) if fmt == '1014' else stream
        except iso_ref.RefError:
            pass        # a shape the strict reference encoder does not take (over-wide fixed text): library writer
    return c06.write_file(msgs, 'PKG', enc, fmt == '1014')


def param_file(nrec, enc_unused, fmt, seed):
    from cardutil import mciipm
    f = io.BytesIO()
    with mciipm.VbsWriter(f, blocked=(fmt == '1014')) as w:
        for i in range(nrec):
            n = 1 + (i * 37 + seed) % 300
            if i % 4 == 1:
                # records made of / wrapped in bytes that are whitespace in one of the codecs (0x20, 0x40, 0x0a, 0x00)
                w.write([b' ', b'\x40' * 5, b'\n', b'  x\x40\x40', b'\x00', b'\x20\x40text\x40\x20'][(i // 4) % 6])
            else:
                w.write(bytes((j * 7 + i * 13 + seed) % 256 for j in range(n)))
    return f.getvalue()


def raw_records(data, fmt):
    stream = blk_ref.payload(data) if fmt == '1014' else data
    recs, offs, stop = vbs_ref.parse_prefix(stream)
    return recs, stop


@contextlib.contextmanager
def quiet():
    with contextlib.redirect_stdout(io.StringIO()), contextlib.redirect_stderr(io.StringIO()):
        yield


def run_tool(tool, entry, data, a, b, fin, fout, workdir, envcfg=None):
    """convert `data` (codec a, format fin) to codec b / format fout; -> output bytes"""
    env0 = os.environ.get('CARDUTIL_CONFIG')
    if envcfg:
        # a configuration directory in the environment (cardutil.json): the converters must not be disturbed by it,
        # whether it repeats the packaged configuration or customises it (PAN masking on DE2, another column list)
        import copy
        import json
        from cardutil.config import config as _pkg
        cfg = copy.deepcopy(_pkg)
        if envcfg == 'custom':
            cfg['bit_config']['2']['field_processor'] = 'PAN'
            cfg['output_data_elements'] = ['MTI', 'DE2']
        d = os.path.join(workdir, 'cfg_' + envcfg)
        os.makedirs(d, exist_ok=True)
        with open(os.path.join(d, 'cardutil.json'), 'w') as f:
            json.dump(cfg, f)
        os.environ['CARDUTIL_CONFIG'] = d
    try:
        return _run_tool(tool, entry, data, a, b, fin, fout, workdir)
    finally:
        if env0 is None:
            os.environ.pop('CARDUTIL_CONFIG', None)
        else:
            os.environ['CARDUTIL_CONFIG'] = env0


def _run_tool(tool, entry, data, a, b, fin, fout, workdir):
    from cardutil.cli import mci_ipm_encode, mci_ipm_param_encode, mideu, paramconv
    inp = os.path.join(workdir, 'in.bin')
    outp = os.path.join(workdir, 'out.bin')
    for p in (inp, outp, inp + '.out'):
        if os.path.exists(p):
            os.unlink(p)
    if entry != 'func':
        with open(inp, 'wb') as f:
            f.write(data)
    argv0 = sys.argv
    # every other input (by its length) runs the commands with their debugging switch: what a user adds when something
    # looks wrong must not change what the command writes
    dbg = ['--debug'] if len(data) % 2 else []
    # every third input is given by a RELATIVE path from inside its directory (default output names derive from it)
    cwd0 = os.getcwd()
    if entry != 'func' and len(data) % 3 == 0:
        os.chdir(workdir)
        inp, outp = 'in.bin', 'out.bin'
    try:
        with quiet():
            if tool in ('mci_ipm_encode', 'mci_ipm_param_encode'):
                mod = mci_ipm_encode if tool == 'mci_ipm_encode' else mci_ipm_param_encode
                fn = mod.mci_ipm_encode if tool == 'mci_ipm_encode' else mod.mci_ipm_param_encode
                if entry == 'func':
                    out = io.BytesIO()
                    fn(io.BytesIO(data), out_file=out, in_encoding=a, out_encoding=b, in_format=fin, out_format=fout)
                    return out.getvalue()
                if entry == 'cli_run':
                    mod.cli_run(in_filename=inp, out_filename=outp, in_encoding=a, out_encoding=b, in_format=fin,
                                out_format=fout)
                elif entry == 'argv':
                    sys.argv = [tool, inp, '-o', outp, '--in-encoding', a, '--out-encoding', b, '--in-format', fin,
                                '--out-format', fout] + dbg
                    mod.cli_entry()
                elif entry == 'argv_default_out':
                    sys.argv = [tool, inp, '--in-encoding', a, '--out-encoding', b, '--in-format', fin,
                                '--out-format', fout] + dbg
                    mod.cli_entry()
                    outp = inp + '.out'
            elif tool == 'mideu':
                src = 'ebcdic' if a == 'cp500' else 'ascii'
                if entry == 'cli_run':
                    kw = dict(func=mideu.convert, input=inp, sourceformat=src)
                    if fin == 'vbs':
                        kw['no1014blocking'] = True
                    if dbg:
                        import logging
                        kw['loglevel'] = logging.DEBUG
                    mideu.cli_run(**kw)
                else:
                    args = ['convert', inp, '-s', src] + (['--no1014blocking'] if fin == 'vbs' else [])
                    mideu.cli_entry(args + (['-d'] if dbg else ['-v'] if len(data) % 3 == 0 else []))
                outp = inp + '.out'
            elif tool == 'paramconv':
                src = 'ebcdic' if a == 'cp500' else 'ascii'
                if entry == 'func':
                    out = io.BytesIO()
                    paramconv.mci_ipm_param_encode(io.BytesIO(data), out, in_encoding=a, out_encoding=b,
                                                   blocked=(fin == '1014'))
                    return out.getvalue()
                if entry == 'cli_run':
                    kw = dict(input=inp, output=outp, sourceformat=src)
                    if fin == 'vbs':
                        kw['no1014blocking'] = True
                    paramconv.cli_run(**kw)
                elif entry == 'cli_run_default_out':
                    kw = dict(input=inp, sourceformat=src)
                    if fin == 'vbs':
                        kw['no1014blocking'] = True
                    paramconv.cli_run(**kw)
                    outp = inp + '.out'
                elif entry == 'argv':
                    paramconv.cli_entry([inp, '-o', outp, '-s', src] + (['--no1014blocking'] if fin == 'vbs' else []))
                elif entry == 'argv_default_out':
                    paramconv.cli_entry([inp, '-s', src] + (['--no1014blocking'] if fin == 'vbs' else []))
                    outp = inp + '.out'
    finally:
        sys.argv = argv0
        os.chdir(cwd0)
    with open(os.path.join(workdir, outp), 'rb') as f:
        return f.read()


def check_case(case, acc, workdir=None):
    own = workdir is None
    if own:
        workdir = tempfile.mkdtemp(prefix='vf_c19_')
    try:
        _check(case, acc, workdir)
    finally:
        if own:
            shutil.rmtree(workdir, ignore_errors=True)


def _check(case, acc, workdir):
    if case.get('kind') == 'cfgseq':
        return check_cfgseq(case, acc, workdir)
    tool, entry, a, b, fin, fout = case['tool'], case['entry'], case['a'], case['b'], case['fin'], case['fout']
    is_param = tool in ('mci_ipm_param_encode', 'paramconv')
    if is_param:
        data = param_file(case['nrec'], a, fin, case.get('seed', 0))
    else:
        data = ipm_file(case['seq'], a, fin)
    acc.case((tool, entry, a, b, fin, fout, repr(case.get('seq')), case.get('nrec'), case.get('envcfg')),
             nontrivial=True, outcome='%s:%s' % (tool, entry))
    try:
        out = run_tool(tool, entry, data, a, b, fin, fout, workdir, case.get('envcfg'))
    except (Exception, SystemExit) as ex:      # argparse exits with SystemExit
        acc.viol('c19.%s.%s.exception' % (tool, entry), case, repr(ex), 'a converted file')
        return
    src_recs, stop1 = raw_records(data, fin)
    out_recs, stop2 = raw_records(out, fout)
    if stop2 not in ('terminator', 'eof', 'short_prefix') or (fout == '1014' and blk_ref.wellformed(out)):
        acc.viol('c19.%s.output_malformed' % tool, case, 'output ends with %s / %s' % (stop2, blk_ref.wellformed(out)
                                                                                       if fout == '1014' else ''),
                 'a finalised %s file' % fout)
        return
    if len(src_recs) != len(out_recs):
        acc.viol('c19.%s.record_count' % tool, case, '%d records' % len(out_recs), '%d records' % len(src_recs))
        return
    cfg = corpus.cfg_of('PKG')
    for i, (r1, r2) in enumerate(zip(src_recs, out_recs)):
        if is_param:
            same = r1.decode(a) == r2.decode(b)
            what = 'text of record %d' % (i + 1)
        else:
            try:
                d1 = iso_ref.decode(r1, cfg, a, False)
            except iso_ref.RefError as ex:
                acc.viol('c19.input_unreadable', case, str(ex), 'writer-produced input record %d decodable under %s'
                         % (i + 1, a), 'the file written by IpmWriter is not a well-formed IPM file')
                return
            try:
                d2 = iso_ref.decode(r2, cfg, b, False)
            except iso_ref.RefError as ex:
                acc.viol('c19.%s.record_unreadable' % tool, case, str(ex), 'record %d decodable under %s' % (i + 1, b))
                return
            same = d1 == d2
            what = 'record %d' % (i + 1)
            if not same:
                ks = [k for k in sorted(set(d1) | set(d2)) if d1.get(k) != d2.get(k)]
                what += ' key %s: %r vs %r' % (ks[0], d2.get(ks[0]), d1.get(ks[0]))
        if not same:
            acc.viol('c19.%s.record_changed' % tool, case, what, 'equal to the input record decoded under %s' % a)
            return
    # and back again with the original format: byte-for-byte
    try:
        back = run_tool(tool, 'func' if tool not in ('mideu',) else 'cli_run', out, b, a, fout, fin, workdir,
                        case.get('envcfg')) if not (tool == 'mideu' and fin != fout) else None
    except (Exception, SystemExit) as ex:
        acc.viol('c19.%s.return_trip.exception' % tool, case, repr(ex), 'the original file')
        return
    if back is not None and back != data:
        acc.viol('c19.%s.return_trip' % tool, case, 'returned file differs (%d vs %d bytes)' % (len(back), len(data)),
                 'byte-identical to the original')


def check_cfgseq(case, acc, workdir):
    """the package configuration is edited IN PLACE between conversions made by the same process (an element gets a
    configuration / another date format, then the edit is undone): every conversion follows the configuration as it is
    when it runs - the converted records equal the input's under that configuration, and converting the first file
    again after the edit was undone gives the first output again"""
    import copy
    from cardutil import config as libconfig, mciipm
    tool, entry, a, b, fin, fout = case['tool'], case['entry'], case['a'], case['b'], case['fin'], case['fout']
    acc.case(('cfgseq', tool, entry, a, b, fin, fout, case['edit']), nontrivial=True, outcome='cfgseq:' + tool)
    live = libconfig.config['bit_config']
    saved = copy.deepcopy(live)

    def records_equal(data, out, cfg, what):
        src, _ = raw_records(data, fin)
        dst, _ = raw_records(out, fout)
        if len(src) != len(dst):
            acc.viol('c19.cfgseq.record_count', case, '%s: %d records' % (what, len(dst)), '%d records' % len(src))
            return False
        for i, (r1, r2) in enumerate(zip(src, dst)):
            d1, d2 = iso_ref.decode(r1, cfg, a, False), iso_ref.decode(r2, cfg, b, False)
            if d1 != d2:
                ks = [k for k in sorted(set(d1) | set(d2)) if d1.get(k) != d2.get(k)]
                acc.viol('c19.cfgseq.record_changed', case, '%s: record %d key %s: %r vs %r' % (
                    what, i + 1, ks[0], d2.get(ks[0]), d1.get(ks[0])), 'equal under the configuration in force')
                return False
        return True
    try:
        first = ipm_file(['minimal', 'typed', 'pds_small'], a, fin)
        out1 = run_tool(tool, entry, first, a, b, fin, fout, workdir)
        if not records_equal(first, out1, copy.deepcopy(saved), 'before the edit'):
            return
        if case['edit'] == 'add56':
            live['56'] = {'field_name': 'site element', 'field_type': 'LLVAR', 'field_length': 0}
            msgs = [{'MTI': '1240', 'DE2': '5444330000001111', 'DE56': 'SITE DATA 0001'},
                    {'MTI': '1240', 'DE56': 'X', 'DE49': '036'}]
        else:
            live['12'] = dict(live['12'], field_date_format='%d%m%y%H%M%S')
            import datetime
            msgs = [{'MTI': '1240', 'DE12': datetime.datetime(2012, 8, 5, 1, 2, 3)},
                    {'MTI': '1240', 'DE12': datetime.datetime(2031, 12, 11, 10, 9, 8), 'DE49': '036'}]
        f = io.BytesIO()
        with mciipm.IpmWriter(f, encoding=a, blocked=(fin == '1014')) as w:
            w.write_many(copy.deepcopy(msgs))
        second = f.getvalue()
        out2 = run_tool(tool, entry, second, a, b, fin, fout, workdir)
        if not records_equal(second, out2, copy.deepcopy(live), 'after the in-place edit (%s)' % case['edit']):
            return
        live.clear()
        live.update(copy.deepcopy(saved))
        out3 = run_tool(tool, entry, first, a, b, fin, fout, workdir)
        if out3 != out1:
            acc.viol('c19.cfgseq.not_restored', case, 'converting the first file again gives another output',
                     'the first output again (the edit was undone)')
    except (Exception, SystemExit) as ex:
        acc.viol('c19.cfgseq.exception', case, repr(ex), 'every conversion succeeds')
    finally:
        live.clear()
        live.update(saved)


def enumerate_cases(tier, seed):
    cases = []
    seqs = [[s] for s in SHAPES] + [list(t) for t in itertools.permutations(SHAPES, 2)] + \
        [[SHAPES[(i * 3) % len(SHAPES)] for i in range(5)], [SHAPES[i % len(SHAPES)] for i in range(40)]]
    pairs = [(a, b) for a in CODECS for b in CODECS]
    for si, seq in enumerate(seqs):
        for a, b in pairs:
            for fin in FORMATS:
                for fout in FORMATS:
                    entry = ['func', 'cli_run', 'argv', 'argv_default_out'][(si + CODECS.index(b) +
                                                                              FORMATS.index(fout)) % 4]
                    for e in (['func', 'cli_run', 'argv', 'argv_default_out'] if len(seq) == 1 or tier == 'thorough'
                              else [entry]):
                        cases.append({'tool': 'mci_ipm_encode', 'entry': e, 'a': a, 'b': b, 'fin': fin, 'fout': fout,
                                      'seq': seq})
        for a, b in (('cp500', 'latin_1'), ('latin_1', 'cp500')):
            for fmt in FORMATS:
                for e in ('cli_run', 'argv'):
                    cases.append({'tool': 'mideu', 'entry': e, 'a': a, 'b': b, 'fin': fmt, 'fout': fmt, 'seq': seq})
                    if len(seq) == 1:
                        for envcfg in ('same', 'custom'):
                            cases.append({'tool': 'mideu', 'entry': e, 'a': a, 'b': b, 'fin': fmt, 'fout': fmt,
                                          'seq': seq, 'envcfg': envcfg})
        if len(seq) == 1:
            for envcfg in ('same', 'custom'):
                cases.append({'tool': 'mci_ipm_encode', 'entry': 'cli_run', 'a': 'cp500', 'b': 'latin_1',
                              'fin': '1014', 'fout': 'vbs', 'seq': seq, 'envcfg': envcfg})
    for edit in ('add56', 'date12'):
        for a, b in (('cp500', 'latin_1'), ('latin_1', 'cp500'), ('cp037', 'cp500')):
            for fin, fout in (('1014', 'vbs'), ('vbs', '1014')):
                for e in ('func', 'cli_run', 'argv'):
                    cases.append({'kind': 'cfgseq', 'tool': 'mci_ipm_encode', 'entry': e, 'a': a, 'b': b, 'fin': fin,
                                  'fout': fout, 'edit': edit})
        for a, b in (('cp500', 'latin_1'), ('latin_1', 'cp500')):
            cases.append({'kind': 'cfgseq', 'tool': 'mideu', 'entry': 'cli_run', 'a': a, 'b': b, 'fin': '1014',
                          'fout': '1014', 'edit': edit})
    for nrec in (1, 2, 7, 30):
        for a, b in pairs:
            for fin in FORMATS:
                for fout in FORMATS:
                    for e in ('func', 'cli_run', 'argv', 'argv_default_out'):
                        if nrec in (2, 7) and e != 'func':
                            continue
                        cases.append({'tool': 'mci_ipm_param_encode', 'entry': e, 'a': a, 'b': b, 'fin': fin,
                                      'fout': fout, 'nrec': nrec, 'seed': seed})
        for a, b in (('cp500', 'latin_1'), ('latin_1', 'cp500')):
            for fmt in FORMATS:
                for e in ('func', 'cli_run', 'cli_run_default_out', 'argv', 'argv_default_out'):
                    cases.append({'tool': 'paramconv', 'entry': e, 'a': a, 'b': b, 'fin': fmt, 'fout': fmt,
                                  'nrec': nrec, 'seed': seed})
    return cases


def large_cases(tier, seed):
    """files beyond 1 MiB (nothing bounds the size of a clearing or parameter file): ~1.3 MB each"""
    big = [SHAPES[i % len(SHAPES)] for i in range(4200)]
    cases = [{'tool': 'mci_ipm_encode', 'entry': 'cli_run', 'a': 'cp500', 'b': 'latin_1', 'fin': '1014', 'fout': 'vbs',
              'seq': big},
             {'tool': 'mci_ipm_encode', 'entry': 'argv', 'a': 'latin_1', 'b': 'cp500', 'fin': 'vbs', 'fout': '1014',
              'seq': big},
             {'tool': 'mideu', 'entry': 'cli_run', 'a': 'cp500', 'b': 'latin_1', 'fin': '1014', 'fout': '1014',
              'seq': big},
             {'tool': 'mci_ipm_param_encode', 'entry': 'argv', 'a': 'cp500', 'b': 'latin_1', 'fin': '1014',
              'fout': '1014', 'nrec': 9000, 'seed': seed},
             {'tool': 'paramconv', 'entry': 'cli_run', 'a': 'latin_1', 'b': 'cp500', 'fin': '1014', 'fout': '1014',
              'nrec': 9000, 'seed': seed}]
    if tier == 'thorough':
        cases += [dict(c, fin='vbs', fout='vbs') for c in cases]
    return cases


def tasks(tier, seed):
    ts = [{'cases': ch} for ch in core.chunks(enumerate_cases(tier, seed), 64)]
    if core.AXIS == '':
        ts += [{'cases': [c]} for c in large_cases(tier, seed)]
    return ts


def run_task(task):
    acc = core.Acc()
    workdir = tempfile.mkdtemp(prefix='vf_c19_')
    try:
        for i, case in enumerate(task['cases']):
            if i == 0:
                acc.sample(case if len(case.get('seq', [])) < 8 else dict(case, seq='%d shapes cyclic' % len(case['seq'])))
            check_case(case, acc, workdir)
    finally:
        shutil.rmtree(workdir, ignore_errors=True)
    return acc


def describe(tier, seed):
    return {
        'rule': 'IPM inputs written by IpmWriter: each of 8 message shapes alone (one made of every punctuation character, '
                'among them those that latin_1 / cp500 / cp037 encode differently), every ORDERED pair, a 5-record and a '
                '40-record mixed file (PDS, multi-carrier PDS, binary ICC with all byte values, typed fields, DE43, '
                '5.9 kB record); parameter inputs of 1/2/7/30 arbitrary-byte records (every byte value occurs). x every '
                'ordered pair of {latin_1, cp500, cp037} (mideu / paramconv: their fixed cp500<->latin1 pairs) x '
                '{vbs,1014}^2 x entry points (function with file objects, cli_run on real files, argparse entry with '
                'argv, with and without -o), also with CARDUTIL_CONFIG pointing at a configuration directory (repeating or '
                'customising the packaged configuration). Oracle: the output is a finalised file of the requested format; same '
                'record count and order; every output record read by the reference decoder under B equals the input '
                'record read under A (ICC bytes identical); converting back with the original format reproduces the '
                'original file byte for byte.',
        'assumptions': ['message text uses the Latin-1 repertoire, which all three codecs carry',
                        'records are compared through vf/ref (vbs_ref, blk_ref, iso_ref), not through the library '
                        'readers'],
        'bounds': {'codecs': CODECS, 'formats': FORMATS},
        'exhaustive': True,
    }


def replay_case(case):
    acc = core.Acc()
    check_case(case, acc)
    return acc


def selfcheck():
    iso_ref.selfcheck()
