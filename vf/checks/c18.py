"""
C18 - Parameter extraction returns exactly the requested table's rows and columns.
E2: synthetic extract files enumerated over index assignments (look-alike sub-ids), row multisets and ALL their
interleavings, every configured table and generated layouts, compressed / expanded, codecs, formats; compared with
an independent slicing of the generated rows.
"""
import csv
import io
import itertools

from vf import core
from vf.ref import blk_ref, vbs_ref

PROPERTY = 'C18'
LEVEL = 'exploration'

SUB_POOL = ['036', '360', '063', '603', '001']
SAFE = [chr(c) for c in range(33, 127) if chr(c) not in '"'] + [' ']

GEN_LAYOUTS = {
    'GENADJ01': {'a': {'start': 19, 'end': 20}, 'b': {'start': 20, 'end': 21}, 'c': {'start': 21, 'end': 30},
                 'd': {'start': 30, 'end': 31}},
    'GENGAP01': {'first': {'start': 19, 'end': 22}, 'second': {'start': 40, 'end': 41},
                 'third': {'start': 100, 'end': 160}},
    'GENONE01': {'only': {'start': 25, 'end': 26}},
}


def param_config():
    from cardutil.config import config
    cfg = dict(config['mci_parameter_tables'])
    cfg.update(GEN_LAYOUTS)
    return cfg


def body_for(table_cfg, salt):
    """position-coded row body in expanded coordinates 19..max_end+5: every column slice is unique; every third
    row has columns that begin and end with spaces, every fifth row has blank columns"""
    top = max(f['end'] for f in table_cfg.values()) + 5
    body = [SAFE[(i * 7 + salt * 13 + (i // len(SAFE))) % len(SAFE)] for i in range(top - 19)]
    if salt % 3 == 1:
        for f in table_cfg.values():
            body[f['start'] - 19] = ' '
            body[f['end'] - 20] = ' '
    if salt % 5 == 2:
        for j, f in enumerate(table_cfg.values()):
            if j % 2 == 0:
                for i in range(f['start'] - 19, f['end'] - 19):
                    body[i] = ' '
    return ''.join(body)


def index_row(table_id, sub_id):
    row = '2011101414A' + 'IP0000T1' + table_id + ' TABLE'.ljust(216, '.') + sub_id
    assert len(row) == 246 and row[11:19] == 'IP0000T1' and row[19:27] == table_id and row[243:246] == sub_id
    return row


TRAILER = 'TRAILER RECORD IP0000T1  00000218'.ljust(80)


def data_row(table_id, sub_id, body, rowno, expanded):
    code = 'AI'[rowno % 2]
    if expanded:
        ts = '20%02d%02d%02d14' % (10 + rowno % 80, 1 + rowno % 12, 1 + rowno % 28)
        return ts + code + table_id + body, ts, code
    ts = '%02d%02d%02d1' % (10 + rowno % 80, 1 + rowno % 12, 1 + rowno % 28)
    return ts + code + sub_id + body, ts, code


def build(case):
    """-> (file bytes, expected list of dicts for the requested table)"""
    cfg = param_config()
    tables = case['tables']               # list of table ids present in the index
    subs = case['subs']                   # sub id per table (same order)
    order = case['order']                 # sequence of table indexes: one data row each, in file order
    want = case['want']
    expanded = case['expanded']
    recs = [index_row('IP0000T1', '000')]
    for t, s in zip(tables, subs):
        recs.append(index_row(t, s))
    if case.get('trailer', True):
        recs.append(TRAILER)
    if case.get('dummy', True):
        recs.append('........xxx....')
    expected = []
    for rowno, ti in enumerate(order):
        t = tables[ti]
        tcfg = cfg.get(t) or {'x': {'start': 19, 'end': 60}}
        body = body_for(tcfg, rowno + case.get('seed', 0))
        if case.get('idlike'):
            # column text that spells a table id / sub id / the trailer text at the places where the OTHER
            # representation keeps such things
            other = tables[(ti + 1) % len(tables)]
            body = [other, t, 'IP0000T1', 'TRAILER '][rowno % 4] + subs[(ti + 1) % len(subs)] + body[11:]
        row, ts, code = data_row(t, subs[ti], body, rowno, expanded)
        recs.append(row)
        if case.get('table_trailers') and (rowno + 1 == len(order) or order[rowno + 1] != ti):
            # the per-table housekeeping records real extracts carry between the tables' rows: they are rows of no
            # table, whatever follows them is still read
            recs.append(('TRAILER RECORD %s  %08d' % (t, rowno + 1)).ljust(80))
            if rowno % 2:
                recs.append(('HEADER RECORD %s' % tables[(ti + 1) % len(tables)]).ljust(80))
        if t == want and t in cfg:
            d = {'table_id': t, 'effective_timestamp': ts, 'active_inactive_code': code}
            for name, pos in cfg[t].items():
                d[name] = body[pos['start'] - 19:pos['end'] - 19]
            expected.append(d)
    if case.get('extra_rows'):
        # rows whose sub id / table id is not in this file's own index: never the requested table's rows
        for j, (sub_id, tid) in enumerate((('036', 'IP0040T1'), ('360', 'IP0075T1'), ('001', 'IP0006T1'))):
            if sub_id in subs:
                continue
            tcfg = {'x': {'start': 19, 'end': 60}}
            row, _, _ = data_row('IP9999T1' if expanded else tid, sub_id, body_for(tcfg, 90 + j), 50 + j, expanded)
            recs.append(row)
    raw = [r.encode(case['enc']) for r in recs]
    stream = vbs_ref.frame(raw)
    return (blk_ref.block(stream) if case['blocked'] else stream), expected


def check_case(case, acc):
    from cardutil import mciipm
    data, expected = build(case)
    cfg = param_config()
    acc.case((tuple(case['tables']), tuple(case['subs']), tuple(case['order']), case['want'], case['expanded'],
              case['enc'], case['blocked'], case.get('trailer', True), case.get('via'), case.get('table_trailers'),
              case.get('idlike')),
             nontrivial=len(case['order']) > 0, outcome='rows:%d' % len(expected))
    refuse = (not case.get('trailer', True)) or (case['want'] not in cfg)
    try:
        if case.get('via') in ('cli', 'argv'):
            import contextlib
            import os
            import shutil
            import sys
            import tempfile
            from cardutil.cli import mci_ipm_param_to_csv
            d = tempfile.mkdtemp(prefix='vf_c18_')
            argv0 = sys.argv
            try:
                inp = os.path.join(d, 'param.bin')
                with open(inp, 'wb') as f:
                    f.write(data)
                std = case['want'] in ('IP0006T1', 'IP0040T1', 'IP0075T1', 'IP0095T1')
                with contextlib.redirect_stdout(io.StringIO()), contextlib.redirect_stderr(io.StringIO()):
                    if case['via'] == 'cli':
                        mci_ipm_param_to_csv.cli_run(in_filename=inp, table_id=case['want'], in_encoding=case['enc'],
                                                     no1014blocking=not case['blocked'], expanded=case['expanded'])
                    else:
                        sys.argv = ['mci_ipm_param_to_csv', inp, case['want'], '--in-encoding', case['enc']] + \
                            (['--no1014blocking'] if not case['blocked'] else []) + \
                            (['--expanded'] if case['expanded'] else []) + (['--debug'] if len(data) % 2 else [])
                        mci_ipm_param_to_csv.cli_entry()
                with open(inp + '_' + case['want'] + '.csv', newline='') as f:
                    got = list(csv.DictReader(f))
                if not std:
                    raise core.Broken('command entry points read the packaged table configuration only')
            finally:
                sys.argv = argv0
                shutil.rmtree(d, ignore_errors=True)
        elif case.get('via') == 'csv':
            from cardutil.cli import mci_ipm_param_to_csv
            out = io.StringIO()
            mci_ipm_param_to_csv.mci_ipm_param_to_csv(
                io.BytesIO(data), out, case['want'], config=cfg, in_encoding=case['enc'],
                no1014blocking=not case['blocked'], expanded=case['expanded'])
            got = list(csv.DictReader(io.StringIO(out.getvalue())))
        else:
            rd = mciipm.IpmParamReader(io.BytesIO(data), case['want'], encoding=case['enc'], param_config=cfg,
                                       expanded=case['expanded'], blocked=case['blocked'])
            got = list(rd)
    except mciipm.MciIpmDataError as ex:
        if not refuse:
            acc.viol('c18.refused_good_file', case, repr(ex), '%d rows' % len(expected))
        return
    except Exception as ex:
        acc.viol('c18.exception', case, repr(ex), 'rows or MciIpmDataError')
        return
    if refuse:
        acc.viol('c18.not_refused.%s' % ('no_trailer' if not case.get('trailer', True) else 'no_config'), case,
                 '%d rows returned' % len(got), 'MciIpmDataError')
        return
    if got != expected:
        if len(got) != len(expected):
            why, sig = 'returned %d rows, %d belong to the table' % (len(got), len(expected)), 'c18.row_set'
        else:
            i = [j for j in range(len(got)) if got[j] != expected[j]][0]
            ks = [k for k in expected[i] if got[i].get(k) != expected[i][k]] or ['<extra keys>']
            why = 'row %d column %s = %r, expected %r' % (i, ks[0], got[i].get(ks[0]), expected[i].get(ks[0]))
            sig = 'c18.column.%s' % ('expanded' if case['expanded'] else 'compressed')
        acc.viol(sig, case, why, 'independent slicing of the generated rows')


def check_multi_case(case, acc):
    """several extract files / readers in one process: opened in the given order (construction loads the index),
    drained in the given order; each must return exactly its own table's rows"""
    from cardutil import mciipm
    cfg = param_config()
    subs = case['files']
    built = [build(c) for c in subs]
    acc.case(('multi', repr([(tuple(c['subs']), tuple(c['order']), c['want'], c['expanded']) for c in subs]),
              tuple(case['open']), tuple(case['drain'])), nontrivial=True, outcome='multi_reader')
    readers = {}
    results = {}
    done = set()
    try:
        for step in case['schedule']:
            op, i = step
            c = subs[i]
            if op == 'open':
                readers[i] = mciipm.IpmParamReader(io.BytesIO(built[i][0]), c['want'], encoding=c['enc'],
                                                   param_config=cfg, expanded=c['expanded'], blocked=c['blocked'])
            elif i in done:
                continue                     # reading on after the end of data is not part of the statement
            elif op == 'one':
                try:
                    results.setdefault(i, []).append(next(readers[i]))
                except StopIteration:
                    done.add(i)
            else:
                results.setdefault(i, []).extend(list(readers[i]))
                done.add(i)
    except Exception as ex:
        acc.viol('c18.multi.exception', case, repr(ex), 'rows')
        return
    for i, c in enumerate(subs):
        if i not in readers:
            continue
        if results.get(i, []) != built[i][1]:
            got = results.get(i, [])
            acc.viol('c18.multi.rows', case, 'reader %d returned %d rows (%s)' % (
                i, len(got), [r.get('table_id') for r in got][:6]), '%d rows of %s' % (len(built[i][1]), c['want']),
                'several parameter readers used in one process')
            return


def multi_cases(seed):
    std = ['IP0006T1', 'IP0040T1', 'IP0075T1', 'IP0095T1']
    base = {'enc': 'latin_1', 'blocked': False, 'seed': seed}
    out = []
    import itertools as it
    assigns = [SUB_POOL[:4], [SUB_POOL[1], SUB_POOL[0], SUB_POOL[3], SUB_POOL[2]], SUB_POOL[1:5]]
    for a1, a2 in it.permutations(assigns, 2):
        for want1, want2 in (('IP0040T1', 'IP0040T1'), ('IP0040T1', 'IP0075T1'), ('IP0006T1', 'IP0095T1')):
            for exp1, exp2 in ((False, False), (False, True)):
                f1 = dict(base, tables=std, subs=list(a1), order=[0, 1, 2, 3, 0, 1, 2, 3], want=want1, expanded=exp1)
                # second file: its index lacks two of the tables, but its rows still carry their sub-ids
                f2 = dict(base, tables=std, subs=list(a2), order=[3, 2, 1, 0, 1, 2], want=want2, expanded=exp2,
                          enc='cp500', blocked=True)
                f3 = dict(base, tables=std[1:3], subs=list(a2[1:3]), order=[0, 1, 0], want=std[1], expanded=exp1,
                          extra_rows=True)
                for sched_ in ([('open', 0), ('open', 1), ('all', 0), ('all', 1)],
                               [('open', 0), ('open', 1), ('all', 1), ('all', 0)],
                               [('open', 0), ('all', 0), ('open', 1), ('all', 1)],
                               [('open', 0), ('open', 1), ('one', 0), ('one', 1), ('one', 0), ('one', 1), ('all', 0),
                                ('all', 1)],
                               [('open', 0), ('all', 0), ('open', 2), ('all', 2), ('open', 1), ('all', 1)]):
                    out.append({'kind': 'multi', 'files': [f1, f2, f3], 'schedule': [list(x) for x in sched_],
                                'open': [x[1] for x in sched_ if x[0] == 'open'],
                                'drain': [x[1] for x in sched_ if x[0] != 'open']})
    return out


def enumerate_cases(tier, seed):
    cases = []
    std = ['IP0006T1', 'IP0040T1', 'IP0075T1', 'IP0095T1']
    base = {'enc': 'latin_1', 'blocked': False, 'seed': seed}
    # (a) every assignment of distinct look-alike sub-ids to the four tables x every requested table x both modes
    for subs in itertools.permutations(SUB_POOL, 4):
        for want in std:
            for expanded in (False, True):
                cases.append(dict(base, tables=std, subs=list(subs), order=[0, 1, 2, 3, 0, 1, 2, 3], want=want,
                                  expanded=expanded))
    # (b) every multiset of 0..2 rows for two tables and EVERY interleaving of them, other tables' rows in between
    for a, b in itertools.permutations(range(4), 2):
        for na in range(3):
            for nb in range(3):
                for order in sorted(set(itertools.permutations([a] * na + [b] * nb))):
                    for expanded in (False, True):
                        for enc, blocked in (('latin_1', True), ('cp500', False)):
                            cases.append(dict(base, tables=std, subs=SUB_POOL[:4], order=list(order), want=std[a],
                                              expanded=expanded, enc=enc, blocked=blocked))
    # (c) cyclic order over all four tables, 0..2 rows each, unknown table rows interleaved
    tabs5 = std + ['IP0052T1']
    for counts in itertools.product(range(3), repeat=4):
        order = []
        for r in range(2):
            for ti in range(4):
                if counts[ti] > r:
                    order += [ti, 4]
        for wi, want in enumerate(std):
            if tier == 'quick' and (sum(counts) + wi) % 2:
                continue
            for expanded in (False, True):
                cases.append(dict(base, tables=tabs5, subs=SUB_POOL, order=order, want=want, expanded=expanded,
                                  enc='cp500' if sum(counts) % 2 else 'latin_1', blocked=bool(counts[0] % 2)))
    # (d) generated layouts (adjacent 1-wide, gapped, single column)
    gl = sorted(GEN_LAYOUTS)
    for want in gl:
        for expanded in (False, True):
            for enc in ('latin_1', 'cp500'):
                for blocked in (False, True):
                    cases.append(dict(base, tables=gl + ['IP0040T1'], subs=['111', '112', '121', '211'],
                                      order=[0, 1, 2, 3, 2, 1, 0], want=want, expanded=expanded, enc=enc,
                                      blocked=blocked))
    # (d2) the index lists the requested table under TWO sub ids (tables[] may repeat a table id)
    for expanded in (False, True):
        for enc, blocked in (('latin_1', False), ('cp500', True)):
            for want in ('IP0040T1', 'IP0075T1'):
                tl = ['IP0040T1', 'IP0075T1', 'IP0040T1', 'IP0075T1', 'IP0006T1']
                cases.append(dict(base, tables=tl, subs=['036', '360', '063', '603', '001'],
                                  order=[0, 1, 2, 3, 4, 3, 2, 1, 0], want=want, expanded=expanded, enc=enc,
                                  blocked=blocked))
    # (d3) column text that looks like identifiers (table ids, sub ids) of this or another table
    for want in std:
        for expanded in (False, True):
            for enc, blocked in (('latin_1', False), ('cp500', True)):
                cases.append(dict(base, tables=std, subs=SUB_POOL[:4], order=[0, 1, 2, 3, 0, 1, 2, 3, 3, 2, 1, 0],
                                  want=want, expanded=expanded, enc=enc, blocked=blocked, idlike=True))
    # (d4) per-table trailer / header records between the runs of rows (a table's rows continue after them)
    for want in std:
        for expanded in (False, True):
            for enc, blocked in (('latin_1', False), ('cp500', True)):
                for order in ([0, 0, 1, 1, 2, 3, 0, 1, 2, 3, 3, 2, 1, 0], [3, 2, 1, 0, 0, 1, 2, 3], [0, 1, 0, 1, 2, 2]):
                    cases.append(dict(base, tables=std, subs=SUB_POOL[:4], order=order, want=want, expanded=expanded,
                                      enc=enc, blocked=blocked, table_trailers=True))
    # (e) refusals
    for expanded in (False, True):
        for blocked in (False, True):
            cases.append(dict(base, tables=std, subs=SUB_POOL[:4], order=[0, 1], want='IP0040T1', expanded=expanded,
                              blocked=blocked, trailer=False))
            cases.append(dict(base, tables=std + ['IP0052T1'], subs=SUB_POOL, order=[0, 4], want='IP0052T1',
                              expanded=expanded, blocked=blocked))
    # (f) through the CSV tool
    for want in std + gl[:1]:
        for expanded in (False, True):
            for enc, blocked in (('latin_1', True), ('cp500', True), ('latin_1', False)):
                tl = std if want in std else gl + ['IP0040T1']
                cases.append(dict(base, tables=tl, subs=SUB_POOL[:4], order=[0, 1, 2, 3, 3, 2, 1, 0, 0], want=want,
                                  expanded=expanded, enc=enc, blocked=blocked, via='csv'))
                if want in std:
                    for via in ('cli', 'argv'):
                        cases.append(dict(base, tables=tl, subs=SUB_POOL[:4], order=[0, 1, 2, 3, 3, 2, 1, 0, 0],
                                          want=want, expanded=expanded, enc=enc, blocked=blocked, via=via))
    cases += multi_cases(seed)
    return cases


def tasks(tier, seed):
    return [{'cases': ch} for ch in core.chunks(enumerate_cases(tier, seed), 64)]


def run_task(task):
    acc = core.Acc()
    for i, case in enumerate(task['cases']):
        if i == 0:
            acc.sample(case if case.get('kind') != 'multi' else {'kind': 'multi', 'schedule': case['schedule'],
                                                                 'files': len(case['files'])})
        replay_into(case, acc)
    return acc


def replay_into(case, acc):
    if case.get('kind') == 'multi':
        check_multi_case(case, acc)
    else:
        check_case(case, acc)


def describe(tier, seed):
    return {
        'rule': 'synthetic extract files (index rows, trailer, dummy row, data rows with position-coded bodies so every '
                'column slice is unique): (a) all 120 assignments of distinct look-alike sub-ids (036/360/063/603/001) '
                'to the four configured tables x each requested table x compressed/expanded; (b) for every ordered pair '
                'of tables every multiset of 0..2 rows each and EVERY interleaving; (c) every count vector 0..2 over '
                'four tables in cyclic order with rows of an unconfigured table in between; (d) generated layouts '
                '(adjacent 1-wide columns, gaps, single column), a table listed in the index under two sub-ids, column text that spells table ids / sub ids; (e) missing trailer / unconfigured table must raise '
                'MciIpmDataError; (f) through mci_ipm_param_to_csv (function, cli_run and argument-parser entry on real files); (g) two or three readers in one process on files with different '
                'sub-id assignments (and rows whose sub-id is missing from their own index), opened and drained side '
                'by side, alternately and one after another. latin_1/cp500, VBS/1014. Oracle: exactly the '
                'requested table\'s rows in file order with timestamp, code and every configured column equal to an '
                'independent slicing.',
        'assumptions': ['expanded rows: timestamp(10) code(1) table id(8) then columns at the configured positions; '
                        'compressed rows: timestamp(7) code(1) sub id(3) then the same columns 8 characters earlier '
                        '(taken from the reader documentation / configuration comments)'],
        'bounds': {'rows_per_table': 2, 'tables': 4},
        'exhaustive': True,
    }


def replay_case(case):
    acc = core.Acc()
    replay_into(case, acc)
    return acc
