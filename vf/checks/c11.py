"""
C11 - Closing a writer finalises the file exactly once, however close is reached.

E1: BFS over operation histories  write* ; (close | exit | exit-with-exception)+  of the real VbsWriter / IpmWriter,
blocked and unblocked, on BytesIO and on real files (w+b and wb).  A state is keyed by the digest of the file
bytes, the file position, every writer (and blocker) attribute and the list of records written; each transition
is executed on a fresh writer rebuilt from the history.  After the first and every later finalisation the file must
read back (real reader and reference parser) as exactly the records written, and later finalisations must not change
a byte.
"""
import hashlib
import io
import os
import shutil
import tempfile

from vf import core
from vf.engine import bfs
from vf.ref import blk_ref, vbs_ref

PROPERTY = 'C11'
LEVEL = 'model_checking'

_SEED = 0
_TIER = 'quick'
_TMP = None

REC_SIZES = [3, 1008, 1012, 2000, 12, 1012]
# the last two records END IN FOUR NUL BYTES (content that looks like the zero-length terminator)
NUL_TAIL = {4, 5}
FINALS = ['close', 'exit', 'exit_exc']
WRITERS = ['VbsWriter', 'IpmWriter']
# 'legacy': a seekable sink in the style of older file-like classes - write() and seek() return None
FILEKINDS = ['bytesio', 'file_w+b', 'file_wb', 'legacy']
MAX_WRITES = 3
MAX_FINALS = 3


def set_tier(tier):
    global MAX_WRITES, MAX_FINALS
    MAX_WRITES, MAX_FINALS = (2, 3) if tier == 'quick' else (3, 4)


def tmpdir():
    global _TMP
    if _TMP is None or not os.path.isdir(_TMP):
        _TMP = tempfile.mkdtemp(prefix='vf_c11_')
    return _TMP


def record_for(writer, size_idx, pos):
    """the object handed to write() and the raw record bytes it must produce"""
    size = REC_SIZES[size_idx]
    nul = size_idx in NUL_TAIL
    if writer == 'VbsWriter':
        data = blk_ref.position_code(size + pos * 13, _SEED)[pos * 13:]
        if nul:
            data = data[:-4] + b'\x00\x00\x00\x00'
        return data, data
    # IpmWriter: MTI + bitmap (20) + DE72 LLLVAR (+ DE54 LLLVAR)
    mti = '1%03d' % (240 + pos)
    body = size - 20 - 3
    if size == 3:
        body = 1
    msg = {'MTI': mti}
    if body <= 999:
        msg['DE72'] = ('R%d-' % pos + 'x' * 999)[:body]
        if nul:
            msg['DE72'] = msg['DE72'][:-4] + '\x00\x00\x00\x00'
    else:
        msg['DE72'] = ('R%d-' % pos + 'x' * 999)[:999]
        msg['DE54'] = ('S%d-' % pos + 'y' * 999)[:body - 999 - 3]
    bitmap = bytearray(16)
    bitmap[0] |= 0x80
    for bit in (72, 54):
        if 'DE%d' % bit in msg:
            bitmap[(bit - 1) // 8] |= 0x80 >> ((bit - 1) % 8)
    raw = mti.encode('latin_1') + bytes(bitmap)
    for bit in (54, 72):
        if 'DE%d' % bit in msg:
            v = msg['DE%d' % bit]
            raw += ('%03d' % len(v)).encode() + v.encode('latin_1')
    return msg, raw


class Run(object):
    """a fresh writer on a fresh file, driven by a history of ops"""

    def __init__(self, cfg):
        from cardutil import mciipm
        self.cfg = cfg
        writer, blocked, fkind = cfg
        self.path = None
        if fkind == 'bytesio':
            self.f = io.BytesIO()
        elif fkind == 'legacy':
            from vf import fileobjs
            self.f = fileobjs.LegacyWriter()
        else:
            fd, self.path = tempfile.mkstemp(dir=tmpdir())
            os.close(fd)
            self.f = open(self.path, 'w+b' if fkind == 'file_w+b' else 'wb')
        cls = getattr(mciipm, writer)
        self.w = cls(self.f, blocked=blocked)
        self.records = []
        self.finals = 0
        self.enters = 0
        self.others_done = 0
        self.moved = 0
        self.first_final_bytes = None

    def file_bytes(self):
        if self.path is None:
            return self.f.getvalue()
        self.f.flush()
        with open(self.path, 'rb') as g:
            return g.read()

    def op(self, op):
        """-> reason or None"""
        writer = self.cfg[0]
        if op[0] == 'w':
            obj, raw = record_for(writer, op[1], len(self.records))
            self.w.write(obj)
            self.records.append(raw)
            return None
        if op[0] == 'others':
            # other, unrelated writers are created, used and finalised in the same process in between
            from cardutil import mciipm
            before = self.file_bytes()
            keep = []
            for i in range(op[1]):
                g = io.BytesIO()
                w2 = mciipm.VbsWriter(g, blocked=bool(i % 2))
                w2.write(b'other %d' % i)
                w2.close()
                keep.append((g, w2))
            self.others = keep            # stay alive: no object address can be recycled
            self.others_done += 1
            if self.file_bytes() != before:
                return 'finalising other writers changed this file'
            return None
        if op[0] == 'moved':
            # the caller uses the finalised file between two finalisations (reads it, seeks in it): the underlying
            # stream is no longer at the position the writer left it at
            before = self.file_bytes()
            self.f.seek(min(op[1], len(before)))
            self.moved += 1
            if self.file_bytes() != before:
                return 'seeking in the underlying file changed it'
            return None
        if op[0] == 'enter':
            before = self.file_bytes()
            got = self.w.__enter__()
            if self.file_bytes() != before:
                return 'entering the context manager changed the file'
            if got is not self.w:
                return '__enter__ did not return the writer'
            self.enters += 1
            return None
        before = self.file_bytes() if op[0] == 'exit_exc' else None
        if op[0] == 'close':
            self.w.close()
        elif op[0] == 'exit':
            self.w.__exit__(None, None, None)
        elif op[0] == 'exit_exc':
            ex = RuntimeError('boom')
            self.w.__exit__(RuntimeError, ex, None)
        data = self.file_bytes()
        if op[0] == 'exit_exc' and self.finals == 0 and data == before:
            # leaving the block through an exception without touching the file is not a finalisation
            return None
        self.finals += 1
        why = judge(data, self.records, self.cfg[1])
        if why:
            return 'after finalisation #%d (%s): %s' % (self.finals, op[0], why)
        if self.first_final_bytes is None:
            self.first_final_bytes = data
        elif data != self.first_final_bytes:
            return 'finalisation #%d (%s) changed the file (%d -> %d bytes)' % (
                self.finals, op[0], len(self.first_final_bytes), len(data))
        return None

    def key(self):
        attrs = []
        objs = [('w', self.w)]
        of = vars(self.w).get('out_file')
        if of is not None and of is not self.f:
            objs.append(('blk', of))
        for tag, o in objs:
            for k, v in sorted(vars(o).items()):
                if k in ('out_file', 'file_obj'):
                    continue
                attrs.append((tag + '.' + k, repr(v)[:80]))
        data = self.file_bytes()
        try:
            pos = self.f.tell()
        except Exception:
            pos = -1
        return (self.cfg, hashlib.sha1(data).hexdigest()[:16], len(data), pos, tuple(attrs),
                tuple(len(r) for r in self.records), min(self.finals, 1),
                # operations that must not matter are part of the key all the same: what they leave behind may live
                # outside the writer object (module-level state of the library), where no attribute shows it
                self.enters, self.others_done, self.moved)

    def dispose(self):
        try:
            self.f.close()
        except Exception:
            pass
        if self.path:
            try:
                os.unlink(self.path)
            except OSError:
                pass


def judge(data, records, blocked):
    """file must read back as exactly `records` - by the real reader and by the reference parser"""
    from cardutil import mciipm
    if blocked:
        why = blk_ref.wellformed(data)
        if why:
            return why
        stream = blk_ref.payload(data)
    else:
        stream = data
    got, offs, stop = vbs_ref.parse_prefix(stream)
    if got != records:
        return 'reference parser finds %d records (lengths %s), %d were written (lengths %s)' % (
            len(got), [len(r) for r in got][:4], len(records), [len(r) for r in records][:4])
    if stop not in ('terminator', 'eof', 'short_prefix'):
        # (whether the zero-length terminator is present is C03's subject; here the file must read back exactly)
        return 'bytes after the last record do not end the file cleanly (%s)' % stop
    try:
        back = list(mciipm.VbsReader(io.BytesIO(data), blocked=blocked))
    except Exception as ex:
        return 'reader raised %r' % ex
    if back != records:
        return 'reader returns %d records (lengths %s), %d were written' % (
            len(back), [len(r) for r in back][:4], len(records))
    return None


def replay(cfg, hist):
    """-> (Run, reason or None); executes the whole history on a fresh writer"""
    r = Run(tuple(cfg))
    why = None
    for op in hist:
        try:
            why = r.op(tuple(op))
        except Exception as ex:
            why = 'op %s raised %r' % (op[0], ex)
        if why:
            break
    return r, why


def enabled(hist):
    nw = sum(1 for op in hist if op[0] == 'w')
    ne = sum(1 for op in hist if op[0] == 'enter')
    no = sum(1 for op in hist if op[0] == 'others')
    nm = sum(1 for op in hist if op[0] == 'moved')
    nf = len(hist) - nw - ne - no - nm
    ops = []
    if nf == 0 and nw < MAX_WRITES:
        ops += [('w', i) for i in range(len(REC_SIZES))]
    if nf < MAX_FINALS:
        ops += [(f,) for f in FINALS]
    # a with statement calls __enter__ before the block: allowed once before the writes and once between / after
    # finalisations (re-using a writer in a second with block)
    if ne < 2 and (not hist or hist[-1][0] != 'enter'):
        ops.append(('enter',))
    if no < 1 and nf >= 1 and nf < MAX_FINALS:
        ops.append(('others', 300))       # between two finalisations of this writer
    if nm < 1 and nf >= 1 and nf < MAX_FINALS:
        ops += [('moved', 100), ('moved', 1 << 20)]     # 100 bytes in / at the end of the file
    return ops


def expand(batch):
    acc = core.Acc()
    succ = {}
    for key, hists in batch:
        cfg = key[0]
        for hist in hists:
            for op in enabled(hist):
                h2 = [list(o) for o in hist] + [list(op)]
                r, why = replay(cfg, h2)
                try:
                    acc.transitions += 1
                    acc.case((key, op), nontrivial=True, outcome=op[0])
                    if why:
                        kind = 'first' if sum(1 for o in h2 if o[0] not in ('w', 'enter', 'others', 'moved')) == 1 else 'repeat'
                        acc.viol('c11.%s.%s' % (kind, 'blocked' if cfg[1] else 'vbs'),
                                 {'cfg': list(cfg), 'hist': h2, 'seed': _SEED}, why,
                                 'file reads back as exactly the records written; later finalisations change nothing')
                        continue
                    k = r.key()
                finally:
                    r.dispose()
                lst = succ.setdefault(k, [])
                if len(lst) < 2 and h2 not in lst:
                    lst.append(h2)
        if len(acc.samples) < 3 and hists and len(hists[0]) >= 2:
            acc.sample({'cfg': list(cfg), 'history': hists[0], 'next_ops': [list(o) for o in enabled(hists[0])]})
    return acc, succ


def run(tier, seed):
    global _SEED, _TIER
    _SEED, _TIER = seed, tier
    set_tier(tier)
    init = []
    try:
        for writer in WRITERS:
            for blocked in (False, True):
                for fk in FILEKINDS:
                    cfg = (writer, blocked, fk)
                    if core.AXIS and (len(init) + seed) % (7 if core.AXIS == 'debuglog' else 3) and len(init) < 64:
                        # on an environment axis: every third (debug logging: seventh) (writer, blocking, file kind) combination -
                        # moduli coprime to the 4 file kinds and 2 blocking modes, so every kind and mode occurs
                        init.append(None)
                        continue
                    r, _ = replay(cfg, [])
                    init.append((r.key(), []))
                    r.dispose()
        init = [x for x in init if x is not None]
        acc, seen = bfs.explore(init, expand, max_levels=12, max_states=200000)
    finally:
        if _TMP and os.path.isdir(_TMP):
            shutil.rmtree(_TMP, ignore_errors=True)
    caps = [acc.counters['bfs_cap_hit']] if 'bfs_cap_hit' in acc.counters else []
    desc = {
        'rule': 'BFS over histories write^m (m<=%d, record sizes %s incl. prefix+record = 1012 and > 1 block; the last two end in four NUL bytes) followed '
                'by up to %d finalisations from {close(), __exit__(None), __exit__(exception)}, with __enter__() allowed '
                'twice anywhere (a with statement enters before it exits; a writer may be used in a second with '
                'block) and, between two finalisations, 300 other unrelated writers created and finalised in the same '
                'process, for {VbsWriter, '
                'IpmWriter} x {VBS, 1014} x {BytesIO, real file w+b, real file wb, a sink whose write()/seek() return None}; state key = digest of file bytes, '
                'file position, every writer and blocker attribute, lengths written, finalised?; every transition '
                'is executed on a fresh writer rebuilt from the history. Oracle after every finalisation: reference '
                'parser and real reader give exactly the records written and the bytes equal those after the first '
                'finalisation.' % (MAX_WRITES, REC_SIZES, MAX_FINALS),
        'assumptions': ['writes after a finalisation are outside the statement and not explored',
                        'for real files the bytes are observed after flush() through a second handle',
                        'the underlying file object is closed by the harness, never by the writer under test'],
        'bounds': {'max_writes': MAX_WRITES, 'max_finalisations': MAX_FINALS, 'configs': len(init)},
        'exhaustive': not caps,
        'caps_hit': caps,
    }
    return acc, desc, {'abstract_states': len(seen)}


def replay_case(case):
    global _SEED
    _SEED = case.get('seed', 0)
    acc = core.Acc()
    try:
        r, why = replay(tuple(case['cfg']), case['hist'])
        r.dispose()
    finally:
        if _TMP and os.path.isdir(_TMP):
            shutil.rmtree(_TMP, ignore_errors=True)
    if why:
        kind = 'first' if sum(1 for o in case['hist'] if o[0] not in ('w', 'enter', 'others')) == 1 else 'repeat'
        acc.viol('c11.%s.%s' % (kind, 'blocked' if case['cfg'][1] else 'vbs'), case, why)
    return acc


def selfcheck():
    blk_ref.selfcheck()
    vbs_ref.selfcheck()
    # the hand-rolled IPM record bytes must be what a plain reading of the layout gives
    msg, raw = record_for('IpmWriter', 1, 0)
    if len(raw) != 1008 or raw[:4] != b'1240':
        raise core.Broken('record_for builds %d bytes' % len(raw))
