"""
C05 - 1014 unblocking: reads return the exact payload stream for every read sequence.

E1: BFS over the states of the real Unblock1014 object (bytes buffered, position in the blocked file, every other
instance attribute) for blocked inputs of 0..B blocks; from every state every read size of the menu and read()
(no size) are executed on a fresh object rebuilt from a representative history; the bytes returned must be the next
slice of the payload stream.  E4: for the validating one-shot function, every truncation length and every
single-byte corruption of every trailer byte of a 3-block file.  Record level: blocked reader == unblocked reader.
"""
import io

from vf import core
from vf.engine import bfs
from vf.ref import blk_ref, vbs_ref

PROPERTY = 'C05'
LEVEL = 'model_checking'

_TIER = 'quick'
_SEED = 0
_FILES = {}


def blocked_file(nblocks):
    if nblocks not in _FILES:
        payload = blk_ref.position_code(1012 * nblocks, _SEED)
        _FILES[nblocks] = (blk_ref.block(payload), payload)
    return _FILES[nblocks]


def build(nblocks, hist):
    """-> (unblocker, file, delivered, outputs ok?)"""
    from cardutil.mciipm import Unblock1014
    data, payload = blocked_file(nblocks)
    f = io.BytesIO(data)
    u = Unblock1014(f)
    d = 0
    for n in hist:
        out = u.read() if n is None else u.read(n)
        d += len(out)
    return u, f, d


def key_of(nblocks, u, f, delivered):
    attrs = []
    for k, v in sorted(vars(u).items()):
        if k == 'file_obj':
            continue
        if isinstance(v, (bytes, bytearray)):
            attrs.append((k, len(v)))
        else:
            attrs.append((k, repr(v)[:60]))
    return (nblocks, f.tell(), tuple(attrs), delivered)


def menu(key, tier):
    if tier == 'thorough':
        return list(range(1, 2025)) + [None]
    nblocks, tell, attrs, delivered = key
    buf = 0
    for k, v in attrs:
        if k == 'buffer' and isinstance(v, int):
            buf = v
    m = set(range(1, 64)) | set(range(1000, 1030)) | {100, 500, 3000, 5000}
    for base in (buf, 1012, 2024, buf + 1012, 1012 - buf if buf < 1012 else 0,
                 1012 - delivered % 1012, 2024 - delivered % 1012):
        for d in (-2, -1, 0, 1, 2):
            m.add(base + d)
    return sorted(x for x in m if 1 <= x) + [None]


def one_read(nblocks, hist, n):
    """replay hist then one more read; -> (succ_key, reason or None)"""
    u, f, d = build(nblocks, hist)
    data, payload = blocked_file(nblocks)
    out = u.read() if n is None else u.read(n)
    exp = payload[d:] if n is None else payload[d:d + n]
    why = None
    if out != exp:
        if not isinstance(out, (bytes, bytearray)):
            why = 'returned %r' % type(out)
        elif len(out) != len(exp):
            why = 'returned %d bytes, expected %d (delivered so far %d of %d)' % (len(out), len(exp), d, len(payload))
        else:
            why = 'returned bytes differ from payload[%d:%d]' % (d, d + len(exp))
    d2 = d + (len(out) if isinstance(out, (bytes, bytearray)) else 0)
    if why is None and d2 == len(payload):
        # everything delivered: further reads must give nothing
        for nn in (1, 1012, None):
            more = u.read() if nn is None else u.read(nn)
            if more != b'':
                why = 'after the whole payload was delivered read(%s) returned %d more bytes' % (nn, len(more))
                break
        u, f, _ = build(nblocks, hist + [n])
    return key_of(nblocks, u, f, d2), why


def expand(batch):
    acc = core.Acc()
    succ = {}
    for key, hists in batch:
        nblocks = key[0]
        sizes = menu(key, _TIER)
        per = []
        for hist in hists:
            res = {}
            for n in sizes:
                case = {'blocks': nblocks, 'hist': hist, 'read': n, 'seed': _SEED}
                try:
                    k, why = one_read(nblocks, hist, n)
                except Exception as ex:
                    k, why = None, 'exception %r' % ex
                acc.transitions += 1
                acc.case((key, n), nontrivial=nblocks > 0,
                         outcome='read_all' if n is None else ('short' if k and k[3] == 1012 * nblocks else 'full'))
                if why:
                    acc.viol('c05.read.noarg' if n is None else 'c05.read.sized', case, why,
                             'next slice of the payload stream')
                if k is not None:
                    res[n] = k
                    lst = succ.setdefault(k, [])
                    h2 = hist + [n]
                    if len(lst) < 2 and h2 not in lst:
                        lst.append(h2)
            per.append(res)
        if len(per) == 2:
            acc.count('states_expanded_from_two_histories')
            if per[0] != per[1]:
                acc.count('abstraction_mismatches')
        if len(acc.samples) < 2:
            acc.sample({'state': {'blocks_in_file': key[0], 'file_pos': key[1], 'attrs': key[2],
                                  'delivered': key[3]}, 'histories': hists,
                        'read_sizes': sizes[:10] + ['...%d sizes' % len(sizes)]})
    return acc, succ


# ---- one-shot function -------------------------------------------------------------------------------

def oneshot_task(task):
    from cardutil.mciipm import block_1014, unblock_1014, MciIpmDataError
    acc = core.Acc()
    kind = task['kind']
    if kind == 'inverse':
        data = blk_ref.position_code(task['hi'] + 10, _SEED)
        for L in range(task['lo'], task['hi']):
            for coding in ('pos', 'fill'):
                x = data[:L] if coding == 'pos' else b'\x40' * L
                case = {'oneshot': 'inverse', 'len': L, 'coding': coding, 'seed': _SEED}
                acc.case(('inv', L, coding), nontrivial=L > 0)
                try:
                    mid = io.BytesIO()
                    block_1014(io.BytesIO(x), mid)
                    out = io.BytesIO()
                    unblock_1014(io.BytesIO(mid.getvalue()), out)
                    got = out.getvalue()
                except Exception as ex:
                    acc.viol('c05.oneshot.inverse', case, 'exception %r' % ex, 'x + 0x40 fill')
                    continue
                if got[:L] != x or got[L:].strip(b'\x40') or len(got) != -(-L // 1012) * 1012:
                    acc.viol('c05.oneshot.inverse', case, 'len %d' % len(got), 'x + 0x40 fill to a multiple of 1012')
    elif kind == 'truncate':
        blocked, payload = blocked_file(3)
        for L in range(task['lo'], task['hi']):
            case = {'oneshot': 'truncate', 'len': L, 'seed': _SEED}
            acc.case(('trunc', L), nontrivial=True)
            out = io.BytesIO()
            try:
                unblock_1014(io.BytesIO(blocked[:L]), out)
                res = 'accepted'
            except MciIpmDataError:
                res = 'refused'
            except Exception as ex:
                res = 'exception %r' % ex
            exp = 'accepted' if L % 1014 == 0 else 'refused'
            acc.outcome('trunc_' + res[:9])
            if res != exp:
                acc.viol('c05.oneshot.truncation', case, res, exp, 'file cut to %d bytes' % L)
            elif res == 'accepted' and out.getvalue() != payload[:(L // 1014) * 1012]:
                acc.viol('c05.oneshot.truncation', case, 'wrong payload', 'payload of the whole blocks')
    elif kind == 'trailer':
        # three contents: position-coded throughout; data followed by 0x40 fill (the usual last block, so the bytes
        # just before the trailer are 0x40 too); all 0x40
        contents = {'pos': blocked_file(3)[0],
                    'padded': blk_ref.block(blk_ref.position_code(2100, _SEED)[:1012 - 5] + b'\x40' * 5 +
                                            blk_ref.position_code(600, _SEED + 1)),
                    'fill': blk_ref.block(b'\x40' * 3036)}
        for pos in task['positions']:
          for cname, blocked in sorted(contents.items()):
            if pos >= len(blocked):
                continue
            for v in range(256):
                if v == 0x40:
                    continue
                bad = blocked[:pos] + bytes([v]) + blocked[pos + 1:]
                case = {'oneshot': 'trailer', 'pos': pos, 'value': v, 'seed': _SEED, 'content': cname}
                acc.case(('trailer', pos, v, cname), nontrivial=True)
                try:
                    unblock_1014(io.BytesIO(bad), io.BytesIO())
                    res = 'accepted'
                except MciIpmDataError:
                    res = 'refused'
                except Exception as ex:
                    res = 'exception %r' % ex
                acc.outcome('trailer_' + res[:9])
                if res != 'refused':
                    acc.viol('c05.oneshot.trailer', case, res, 'refused',
                             'trailer byte %d of block %d replaced by 0x%02x' % (pos % 1014 - 1012, pos // 1014, v))
    return acc


# ---- record level -----------------------------------------------------------------------------------

REC_ALPHABET = [1, 2, 3, 4, 5, 1003, 1004, 1005, 1006, 1007, 1008, 1009, 1010, 1011, 1012, 1013, 1014, 1015, 1016,
                2019, 2020, 2021, 2024, 2028, 3030, 5999, 6000]


def record_task(task):
    from cardutil.mciipm import VbsReader
    acc = core.Acc()
    src = blk_ref.position_code(20000, _SEED)
    for lens in task['lists']:
        recs = []
        off = 0
        for n in lens:
            recs.append(src[off:off + n])
            off += n
        stream = vbs_ref.frame(recs)
        blocked = blk_ref.block(stream)
        case = {'records': lens, 'seed': _SEED}
        acc.case(('records', tuple(lens)), nontrivial=True)
        try:
            got_b = list(VbsReader(io.BytesIO(blocked), blocked=True))
            got_u = list(VbsReader(io.BytesIO(stream)))
        except Exception as ex:
            acc.viol('c05.records', case, 'exception %r' % ex, 'same records from blocked and unblocked input')
            continue
        if got_b != got_u or got_b != recs:
            acc.viol('c05.records', case, 'blocked reader gave %d records (lens %s)' % (
                len(got_b), [len(r) for r in got_b][:6]), 'records of lengths %s' % lens)
    return acc


PAIR_SCRIPTS = [[1, 1, 1], [4, 500, 4], [1012, 1, 1011], [1500, 600, None], [300, 1012, 300], [None, 1, 1],
                [2024, 1, 1], [700, 700, 700]]


def pair_task(task):
    """two Unblock1014 objects on two different files, their reads interleaved in every order: each must deliver
    its own payload stream"""
    from cardutil.mciipm import Unblock1014
    from vf.engine import sched
    acc = core.Acc()
    pay_a = blk_ref.position_code(1012 * 3, _SEED)
    pay_b = bytes(255 - x for x in blk_ref.position_code(1012 * 2 + 7, _SEED + 1))[:1012 * 2]
    file_a, file_b = blk_ref.block(pay_a), blk_ref.block(pay_b)
    merges = list(sched.merges([3, 3]))
    for ia, ib in task['pairs']:
        sa, sb = PAIR_SCRIPTS[ia], PAIR_SCRIPTS[ib]
        for order in merges:
            ua, ub = Unblock1014(io.BytesIO(file_a)), Unblock1014(io.BytesIO(file_b))
            pos = {0: 0, 1: 0}
            step = {0: 0, 1: 0}
            acc.transitions += len(order)
            acc.case(('pair', ia, ib, order), nontrivial=True, outcome='two_unblockers')
            case = {'pair': [ia, ib], 'order': list(order), 'seed': _SEED}
            for who in order:
                u, pay, script = (ua, pay_a, sa) if who == 0 else (ub, pay_b, sb)
                n = script[step[who]]
                step[who] += 1
                try:
                    out = u.read() if n is None else u.read(n)
                except Exception as ex:
                    acc.viol('c05.pair.exception', case, repr(ex), 'payload slice')
                    break
                exp = pay[pos[who]:] if n is None else pay[pos[who]:pos[who] + n]
                if bytes(out) != exp:
                    acc.viol('c05.pair.foreign_bytes', case, 'reader %d read(%s) at offset %d returned %d bytes that are '
                             'not its own payload' % (who, n, pos[who], len(out)), 'its own next %d bytes' % len(exp),
                             'two unblockers on different files used alternately')
                    break
                pos[who] += len(exp)
    acc.sample({'two_unblockers': True, 'scripts': [PAIR_SCRIPTS[task['pairs'][0][0]], PAIR_SCRIPTS[task['pairs'][0][1]]],
                'merges': len(merges)})
    return acc


# ---- large files ------------------------------------------------------------------------------------------
# files beyond 1 MiB (1035 blocks and more): nothing in the statement bounds the file size, and real clearing files
# are larger than this. The payload pattern has a prime period (65521) so that no block, buffer or power-of-two
# boundary repeats it.

LARGE_SCRIPTS = ['all', 4096, 65536, 1 << 20, (1 << 20) + 1, 1012, 1014, 1000003, 3 << 20, 'records', 'oneshot']
_PATTERN = bytes(((j * j) + j // 251) & 0xff for j in range(65521))


def large_payload(nblocks, seed):
    n = nblocks * 1012
    rot = seed % 65521
    pat = _PATTERN[rot:] + _PATTERN[:rot]
    return (pat * (n // 65521 + 1))[:n]


def large_task(task):
    from cardutil.mciipm import Unblock1014, VbsReader
    from vf import fileobjs
    acc = core.Acc()
    nb, script, kind = task['blocks'], task['script'], task['kind']
    case = {'large': True, 'blocks': nb, 'script': script, 'kind': kind, 'seed': _SEED}
    acc.case(('large', nb, script, kind), nontrivial=True, outcome='large_file')
    if script == 'records':
        # the same size as a stream of 6000-byte records read through the blocked record reader
        pay = large_payload(nb, _SEED)
        recs = [pay[i:i + 6000] for i in range(0, len(pay) - 6000 * 2, 6000)]
        stream = vbs_ref.frame(recs)
        fo, done = fileobjs.reader(kind, blk_ref.block(stream))
        try:
            n = 0
            for i, r in enumerate(VbsReader(fo, blocked=True)):
                n += 1
                if r != recs[i]:
                    acc.viol('c05.large.records', case, 'record %d differs' % (i + 1), 'the records written')
                    return acc
            if n != len(recs):
                acc.viol('c05.large.records', case, '%d records' % n, '%d records' % len(recs))
        except Exception as ex:
            acc.viol('c05.large.exception', case, repr(ex), 'the records written')
        finally:
            done()
        return acc
    pay = large_payload(nb, _SEED)
    if script == 'oneshot':
        # the one-shot functions on a stream of this size (and one that is not a whole number of blocks)
        from cardutil.mciipm import block_1014, unblock_1014
        for cut in (0, 5):
            x = pay[:len(pay) - cut]
            fo, done = fileobjs.reader(kind, x)
            try:
                mid = io.BytesIO()
                block_1014(fo, mid)
                if mid.getvalue() != blk_ref.block(x):
                    acc.viol('c05.large.oneshot', case, 'block_1014 output differs from the layout (%d bytes in)' % len(x),
                             'the blocked form')
                    return acc
                out = io.BytesIO()
                unblock_1014(io.BytesIO(mid.getvalue()), out)
                got = out.getvalue()
                if got[:len(x)] != x or got[len(x):].strip(b'\x40'):
                    acc.viol('c05.large.oneshot', case, 'unblock_1014(block_1014(x)) differs from x + fill', 'x + fill')
                    return acc
            except Exception as ex:
                acc.viol('c05.large.exception', case, repr(ex), 'blocked / unblocked stream')
                return acc
            finally:
                done()
        return acc
    fo, done = fileobjs.reader(kind, blk_ref.block(pay))
    try:
        u = Unblock1014(fo)
        pos = 0
        while True:
            out = u.read() if script == 'all' else u.read(script)
            acc.transitions += 1
            exp = pay[pos:] if script == 'all' else pay[pos:pos + script]
            if bytes(out) != exp:
                d = next((i for i in range(min(len(out), len(exp))) if out[i] != exp[i]), min(len(out), len(exp)))
                acc.viol('c05.large.read', case, 'read at payload offset %d returned %d bytes, first difference at +%d'
                         % (pos, len(out), d), 'the next %d payload bytes' % len(exp),
                         'file of %d blocks (%d bytes)' % (nb, nb * 1014))
                break
            pos += len(exp)
            if not exp:
                break
    except Exception as ex:
        acc.viol('c05.large.exception', case, repr(ex), 'payload')
    finally:
        done()
    return acc


KIND_SCRIPTS = [['all'], [1, 'all'], [1012, 1012, 'all'], [1013, 1, 2024, 'all'], [5000], [4] * 30 + ['all'], [2028, 'all'],
                # sizes no file can satisfy ("or all that remain"): 2 GiB, the largest machine word, beyond it
                [1 << 31], [7, (1 << 63) - 1], [1 << 64, 1], [10 ** 30]]


def kind_task(task):
    """small files (1..5 blocks) read through the unblocker from EVERY kind of file object with a few read scripts"""
    from cardutil.mciipm import Unblock1014
    from vf import fileobjs
    acc = core.Acc()
    for nb in task['blocks']:
        pay = blk_ref.position_code(1012 * nb, _SEED)
        blocked = blk_ref.block(pay)
        for kind in fileobjs.ALL_READ_KINDS:
            for si, script in enumerate(KIND_SCRIPTS):
                case = {'kindcase': True, 'blocks': nb, 'kind': kind, 'script': si, 'seed': _SEED}
                acc.case(('kind', nb, kind, si), nontrivial=True, outcome='file_object_kinds')
                fo, done = fileobjs.reader(kind, blocked)
                try:
                    u = Unblock1014(fo)
                    pos = 0
                    for n in script:
                        out = u.read() if n == 'all' else u.read(n)
                        acc.transitions += 1
                        exp = pay[pos:] if n == 'all' else pay[pos:pos + n]
                        if bytes(out) != exp:
                            acc.viol('c05.kinds.read', case, 'read(%s) at %d returned %d bytes' % (n, pos, len(out)),
                                     'the next %d payload bytes' % len(exp), 'file object kind: ' + kind)
                            break
                        pos += len(exp)
                except Exception as ex:
                    acc.viol('c05.kinds.exception', case, repr(ex), 'payload slices', 'file object kind: ' + kind)
                finally:
                    done()
    return acc


def large_tasks(tier):
    sizes = [1034, 1035, 1036, 2071] if tier == 'quick' else [1034, 1035, 1036, 2069, 2070, 2071, 3106, 4200]
    ts = []
    # single reads of 4 to 10 MiB on files of 4097 .. 10400 blocks ("exactly the requested number of bytes")
    for nb, reads in ((4097, [(1 << 22) - 1, 1 << 22, (1 << 22) + 1013]), (5200, [4200000, 5000000, 5262399, 5262400]),
                      (10400, [8 << 20, 10 << 20])):
        if tier == 'quick' and nb == 10400:
            reads = reads[:1]
        for r in reads:
            ts.append({'blocks': nb, 'script': r, 'kind': 'bytesio'})
    for nb in sizes:
        for i, script in enumerate(LARGE_SCRIPTS):
            kinds = ['bytesio', 'file', 'pipe', 'minimal', 'smallbuf', 'zip', 'mmap']
            if tier == 'quick':
                kinds = [kinds[(i + nb) % 7]] if script not in ('all', 4096) else kinds[:4]
            if script == 'oneshot':
                kinds = ['bytesio', 'file']       # block_1014 rewinds both of its file objects: seekable ones only
            for kind in kinds:
                ts.append({'blocks': nb, 'script': script, 'kind': kind})
    return ts


def run(tier, seed):
    global _TIER, _SEED
    _TIER, _SEED = tier, seed
    _FILES.clear()
    maxb = 3 if tier == 'quick' else 4
    init = []
    for nb in range(0, maxb + 1):
        u, f, d = build(nb, [])
        init.append((key_of(nb, u, f, d), []))
    acc, seen = bfs.explore(init, expand, max_levels=60, max_states=60000)
    ts = [{'kind': 'inverse', 'lo': lo, 'hi': lo + 100} for lo in range(0, 3200 if tier == 'quick' else 6200, 100)]
    ts += [{'kind': 'truncate', 'lo': lo, 'hi': min(lo + 200, 3043)} for lo in range(0, 3043, 200)]
    trailer_pos = [b * 1014 + 1012 + i for b in range(3) for i in range(2)]
    ts += [{'kind': 'trailer', 'positions': [p]} for p in trailer_pos]
    for a in core.pmap(oneshot_task, ts):
        acc.merge(a)
    lists = [[a] for a in REC_ALPHABET] + [[a, b] for a in REC_ALPHABET for b in REC_ALPHABET]
    if tier == 'thorough':
        sub = [1, 4, 1004, 1008, 1012, 1016, 2020, 6000]
        lists += [[a, b, c] for a in sub for b in sub for c in sub]
    else:
        sub = [1, 1008, 1012, 2020]
        lists += [[a, b, c] for a in sub for b in sub for c in sub]
    for a in core.pmap(record_task, [{'lists': ch} for ch in core.spread(lists, 32)]):
        acc.merge(a)
    prs = [(a, b) for a in range(len(PAIR_SCRIPTS)) for b in range(len(PAIR_SCRIPTS))]
    for a in core.pmap(pair_task, [{'pairs': ch} for ch in core.chunks(prs, 16)]):
        acc.merge(a)
    lts = large_tasks(tier) if core.AXIS == '' else large_tasks('quick')[::5]
    for a in core.pmap(large_task, lts):
        acc.merge(a)
    for a in core.pmap(kind_task, [{'blocks': [nb]} for nb in range(1, 6)]):
        acc.merge(a)
    caps = [acc.counters['bfs_cap_hit']] if 'bfs_cap_hit' in acc.counters else []
    if acc.counters.get('abstraction_mismatches'):
        caps.append('%d states behaved differently from their two representative histories'
                    % acc.counters['abstraction_mismatches'])
    delivered = {(k[0], k[3]) for k in seen}
    desc = {
        'rule': 'BFS over states of the real Unblock1014 (blocks in file 0..%d, file position, length of every '
                'bytes attribute, every other attribute, bytes delivered). From each state each of two '
                'representative read histories is replayed on a fresh object and %s is executed; the result must be '
                'the next slice of the payload stream (all that remains for read()), and once everything is '
                'delivered further reads return nothing. A case = (state, read size). Plus: unblock_1014 inverts '
                'block_1014 for every length; every truncation length 0..3042 and every value of each of the 6 '
                'trailer bytes of a 3-block file must be refused; blocked vs unblocked record reading over %d '
                'record-length lists; two unblockers on different files with their reads interleaved in every order '
                '(64 script pairs x 20 merges); files of 1034..%d blocks (beyond 1 MiB) read to the end with read(), '
                'with uniform read sizes 1012 .. 3 MiB and through the blocked record reader, from an in-memory '
                'file, a real file, a non-seekable stream and an object that only has read().' % (maxb, 'every read size 1..2024 and read()' if tier == 'thorough' else
                                         'a boundary-relative menu of read sizes (around the buffer length, 1012, '
                                         '2024, the distance to the next block edge) and read()', len(lists),
                                         2071 if tier == 'quick' else 4200),
        'assumptions': ['read(0) is excluded: the signature default 0 means "no size", so an explicit 0 cannot be '
                        'told from it', 'inputs are whole blocks with correct trailers (cut files: C09)',
                        'in the state search read sizes stop at 2024 (two blocks); larger reads are covered on the '
                        'large files only'],
        'bounds': {'blocks': maxb, 'read_size_max': 2024 if tier == 'thorough' else 'menu',
                   'distinct_delivered_offsets': len(delivered)},
        'exhaustive': not caps,
        'caps_hit': caps,
    }
    return acc, desc, {'abstract_states': len(seen), 'distinct_delivered_offsets': len(delivered)}


def replay_case(case):
    global _SEED
    _SEED = case.get('seed', 0)
    _FILES.clear()
    acc = core.Acc()
    if 'oneshot' in case:
        if case['oneshot'] == 'inverse':
            return oneshot_task({'kind': 'inverse', 'lo': case['len'], 'hi': case['len'] + 1})
        if case['oneshot'] == 'truncate':
            return oneshot_task({'kind': 'truncate', 'lo': case['len'], 'hi': case['len'] + 1})
        a = oneshot_task({'kind': 'trailer', 'positions': [case['pos']]})
        return a
    if case.get('large'):
        return large_task(case)
    if case.get('kindcase'):
        return kind_task({'blocks': [case['blocks']]})
    if 'records' in case:
        return record_task({'lists': [case['records']]})
    if 'pair' in case:
        a = pair_task({'pairs': [tuple(case['pair'])]})
        return a
    try:
        k, why = one_read(case['blocks'], case['hist'], case['read'])
    except Exception as ex:
        why = 'exception %r' % ex
    if why:
        acc.viol('c05.read.noarg' if case['read'] is None else 'c05.read.sized', case, why)
    return acc


def selfcheck():
    blk_ref.selfcheck()
    vbs_ref.selfcheck()
