"""
C04 - 1014 blocking: output is well-formed and data-exact for every write sequence.

Engine E1: breadth-first search over the abstract states of the real Block1014 object (payload residue mod 1012,
trailer pending / written, plus every instance attribute). From every state, every write size of the menu is
executed on a fresh real object rebuilt from a representative history, followed by a finalisation; the finalised
bytes are compared with the reference blocker. Every state is expanded from two different histories and the
two expansions must agree (differential oracle for the state abstraction).
"""
import io

from vf import core
from vf.engine import bfs
from vf.ref import blk_ref

PROPERTY = 'C04'
LEVEL = 'model_checking'

NPAY = 80000
_PAY = {}
_TIER = 'quick'
_SEED = 0


class CapIO(io.BytesIO):
    """BytesIO that remembers its content when closed"""
    final = None

    def close(self):
        self.final = self.getvalue()
        super().close()


def pay(coding):
    if coding not in _PAY:
        if coding == 'pos':
            _PAY[coding] = blk_ref.position_code(NPAY, _SEED)
        elif coding == 'fill':
            _PAY[coding] = b'\x40' * NPAY
        elif coding == 'zero':
            _PAY[coding] = b'\x00' * NPAY
        elif coding == 'ws':
            _PAY[coding] = (b' \n\t\r' * (NPAY // 4 + 1))[:NPAY]
        else:
            raise core.Broken('coding ' + coding)
    return _PAY[coding]


def build(hist, coding='pos'):
    from cardutil.mciipm import Block1014
    f = CapIO()
    b = Block1014(f)
    data = pay(coding)
    off = 0
    for n in hist:
        b.write(data[off:off + n])
        off += n
    return f, b, off


def key_of(b, f, plen):
    attrs = tuple(sorted((k, repr(v)[:60]) for k, v in vars(b).items() if k != 'file_obj'))
    d = len(f.getvalue()) - (plen + 2 * (plen // 1012))
    return (attrs, plen % 1012, d if d in (0, -2) else 99)


def finalise(f, b, how):
    if how == 'finalise':
        b.finalise()
        return f.getvalue()
    if how == 'seek0':
        b.seek(0)
        return f.getvalue()
    if how == 'close':
        b.close()
        return f.final if f.final is not None else f.getvalue()
    raise core.Broken(how)


def judge(final, payload):
    """-> None or reason"""
    exp = blk_ref.block(payload)
    if final == exp or final == exp + blk_ref.FILL_BLOCK:
        return None
    why = blk_ref.wellformed(final)
    if why:
        return why
    got = blk_ref.payload(final)
    if got[:len(payload)] != payload:
        for i in range(min(len(got), len(payload))):
            if got[i] != payload[i]:
                return 'payload differs from the bytes written at offset %d' % i
        return 'payload shorter than the bytes written (%d < %d)' % (len(got), len(payload))
    if got[len(payload):].strip(b'\x40'):
        return 'bytes other than 0x40 follow the data'
    return 'more than one all-fill block / wrong block count (%d bytes, expected %d or %d)' % (
        len(final), len(exp), len(exp) + 1014)


def menu(r, tier, fresh=False):
    # the fresh state gets every size in both tiers: that is what makes every residue reachable at level 1
    if tier == 'thorough' or fresh:
        return list(range(0, 3041)) + [6000, 8191, 8192, 8193, 10000, 16384, 20001, 39000]
    m = set(range(0, 1017)) | {6000, 8191, 8192, 8193, 10000, 20001}
    for base in (0, 1012, 2024):
        for d in range(-2, 3):
            m.add(r + base + d)
    for lo, hi in ((1010, 1016), (2022, 2028), (3034, 3040)):
        m.update(range(lo, hi + 1))
    return sorted(x for x in m if x >= 0)


def one_transition(hist, n, coding, how='finalise'):
    """execute hist, then write(n), on a fresh object; -> (succ_key, reason or None, delta_len)"""
    f, b, off = build(hist, coding)
    before = len(f.getvalue())
    data = pay(coding)
    b.write(data[off:off + n])
    plen = off + n
    k = key_of(b, f, plen)
    delta = len(f.getvalue()) - before
    final = finalise(f, b, how)
    return k, judge(final, data[:plen]), delta


def expand(batch):
    acc = core.Acc()
    succ = {}
    for key, hists in batch:
        if core.AXIS and key[1] % 8 != _SEED % 8 and key[1] != 0:
            continue                 # on an environment axis: every eighth residue class
        r = 1012 - key[1]
        sizes = menu(r, _TIER, fresh=(key[1] == 0 and key[2] == 0))
        if core.AXIS:
            sizes = sizes[::7]       # on an environment axis: a seventh of the write sizes from every state
        per_hist = []
        for hist in hists:
            res = {}
            # finalisers from this very state
            for how in ('finalise', 'seek0', 'close'):
                try:
                    f, b, off = build(hist, 'pos')
                    why = judge(finalise(f, b, how), pay('pos')[:off])
                except Exception as ex:
                    why = 'exception %r' % ex
                acc.transitions += 1
                acc.case((key, how), nontrivial=True, outcome=how)
                if why:
                    acc.viol('c04.final.%s' % how, {'hist': hist, 'write': None, 'how': how, 'coding': 'pos',
                                                    'seed': _SEED}, why, 'reference blocking of the bytes written')
            for n in sizes:
                codings = ('pos',) if (len(sizes) > 1000 and not (n < 3 or n % 1012 < 3 or n % 1012 > 1009)) \
                    else ('pos', 'fill', 'zero', 'ws')
                for coding in codings:
                    try:
                        k, why, delta = one_transition(hist, n, coding)
                    except Exception as ex:
                        k, why, delta = None, 'exception %r' % ex, None
                    acc.transitions += 1
                    acc.case((key, n, coding), nontrivial=n > 0)
                    if why:
                        acc.viol('c04.write.final', {'hist': hist, 'write': n, 'how': 'finalise', 'coding': coding,
                                                     'seed': _SEED}, why, 'reference blocking of the bytes written',
                                 'state remaining=%d' % r)
                    if coding == 'pos' and k is not None:
                        res[n] = (k, delta)
                        lst = succ.setdefault(k, [])
                        h2 = hist + [n]
                        if len(lst) < 2 and h2 not in lst and sum(h2) < NPAY - 42000:
                            lst.append(h2)
            per_hist.append(res)
        if len(per_hist) == 2 and per_hist[0] != per_hist[1]:
            # not a property violation: it means the state abstraction merged states with different futures,
            # so the 'every history' coverage claim is withdrawn for this run (reported in caps_hit)
            acc.count('abstraction_mismatches')
        if len(hists) == 2:
            acc.count('states_expanded_from_two_histories')
        if len(acc.samples) < 2:
            acc.sample({'state': {'payload_mod_1012': key[1], 'attrs': key[0], 'trailer': key[2]},
                        'histories': hists, 'write_sizes': sizes[:12] + ['...%d sizes' % len(sizes)]})
    return acc, succ


def oneshot_task(task):
    """one-shot block_1014 == reference for every payload length in the task's range"""
    from cardutil.mciipm import block_1014
    acc = core.Acc()
    for coding in ('pos', 'fill', 'zero', 'ws'):
        data = pay(coding)
        for L in range(task['lo'], task['hi']):
            out = io.BytesIO()
            block_1014(io.BytesIO(data[:L]), out)
            got = out.getvalue()
            acc.case(('oneshot', L, coding), nontrivial=L > 0)
            if got != blk_ref.block(data[:L]):
                acc.viol('c04.oneshot', {'oneshot': L, 'coding': coding, 'seed': _SEED},
                         judge(got, data[:L]) or 'differs from reference', 'reference blocking')
    return acc


def style_task(task):
    """how a copy loop really drives the blocker: ONE mutable buffer, refilled before every write and overwritten
    after it (readinto style: what was passed must not be kept by reference), and flush() between the writes
    (flushing is not finalising). Chunk sizes 1..40 and a few around the block size, every total length in the range."""
    from cardutil.mciipm import Block1014
    acc = core.Acc()
    data = pay('pos')
    for L in range(task['lo'], task['hi']):
        for chunk in (1, 2, 3, 7, 40, 500, 1011, 1012, 1013, 2024):
            if chunk < 7 and L > 60 and L % 97:
                continue            # tiny chunks on long streams: a sample is enough (the block edge is L-independent)
            for style in ('reuse', 'flush', 'reuse+flush'):
                case = {'style': style, 'len': L, 'chunk': chunk, 'seed': _SEED}
                acc.case(('style', style, L, chunk), nontrivial=True, outcome='style')
                try:
                    f = CapIO()
                    b = Block1014(f)
                    buf = bytearray(chunk)
                    off = 0
                    while off < L:
                        n = min(chunk, L - off)
                        if 'reuse' in style:
                            buf[:n] = data[off:off + n]
                            b.write(memoryview(buf)[:n] if (off // chunk) % 2 else buf[:n] if n == chunk and False
                                    else memoryview(buf)[:n])
                            for j in range(n):
                                buf[j] = 0x5a
                        else:
                            b.write(data[off:off + n])
                        if 'flush' in style:
                            b.flush()
                        off += n
                    why = judge(finalise(f, b, 'finalise'), data[:L])
                except Exception as ex:
                    why = 'exception %r' % ex
                acc.transitions += 1
                if why:
                    acc.viol('c04.style.%s' % style.replace('+', '_'), case, why, 'reference blocking of the bytes written')
    return acc


def huge_task(task):
    """ONE write call carrying 1 .. 3 MiB (about 1000 .. 3100 blocks), alone and after a short first write"""
    from cardutil.mciipm import Block1014
    acc = core.Acc()
    n, first = task['size'], task['first']
    base = pay('pos')
    data = (base * (n // len(base) + 2))[:n + first]
    case = {'huge': n, 'first': first, 'seed': _SEED}
    acc.case(('huge', n, first), nontrivial=True, outcome='huge_write')
    try:
        f = CapIO()
        b = Block1014(f)
        if first:
            b.write(data[:first])
        b.write(data[first:])
        why = judge(finalise(f, b, 'finalise'), data)
    except BaseException as ex:      # RecursionError, MemoryError ... are verdicts here
        why = 'exception %r' % ex
    acc.transitions += 1
    if why:
        acc.viol('c04.huge_write', case, why, 'reference blocking of the %d bytes written' % len(data))
    return acc


HEADERS = [1, 6, 500, 1008, 1009, 1013, 1014, 1020, 2027]


def header_task(task):
    """the blocker wraps a file that already holds something (a header the caller wrote first): what the blocker
    adds AFTER it must still be the blocked form of the bytes written - the block grid is the blocker's, not the
    file's"""
    from cardutil.mciipm import Block1014
    acc = core.Acc()
    data = pay('pos')
    for L in range(task['lo'], task['hi']):
        for h in HEADERS:
            for split in (0, 1, 2):
                for how in (('finalise',) if split else ('finalise', 'close', 'seek0')):
                    case = {'header': h, 'len': L, 'split': split, 'how': how, 'seed': _SEED}
                    acc.case(('header', h, L, split, how), nontrivial=True, outcome='header')
                    try:
                        f = CapIO()
                        f.write(b'H' * h)
                        b = Block1014(f)
                        cuts = [L] if split == 0 else [L // 2, L - L // 2] if split == 1 else [1012, max(0, L - 1012)]
                        off = 0
                        for n in cuts:
                            n = min(n, L - off)
                            b.write(data[off:off + n])
                            off += n
                        final = finalise(f, b, how)
                        why = judge(final[h:], data[:L]) if final[:h] == b'H' * h else 'the header bytes were changed'
                    except Exception as ex:
                        why = 'exception %r' % ex
                    acc.transitions += 1
                    if why:
                        acc.viol('c04.header.%s' % how, case, why, 'reference blocking of the bytes written after the '
                                 '%d bytes the file already held' % h)
    return acc


def run(tier, seed):
    global _TIER, _SEED
    _TIER, _SEED = tier, seed
    _PAY.clear()
    f, b, off = build([])
    init = key_of(b, f, 0)
    acc, seen = bfs.explore([(init, [])], expand, max_levels=8, max_states=3000)
    top = 3100 if tier == 'quick' else 8200
    for a in core.pmap(oneshot_task, [{'lo': lo, 'hi': min(lo + 100, top + 1)} for lo in range(0, top + 1, 100)]):
        acc.merge(a)
    htop = 2100 if tier == 'quick' else 4100
    for a in core.pmap(header_task, [{'lo': lo, 'hi': min(lo + 50, htop + 1)} for lo in range(0, htop + 1, 50)][::4 if core.AXIS else 1]):
        acc.merge(a)
    stop = 1100 if tier == 'quick' else 3100
    for a in core.pmap(style_task, [{'lo': lo, 'hi': min(lo + 25, stop + 1)} for lo in range(0, stop + 1, 25)][::4 if core.AXIS else 1]):
        acc.merge(a)
    if not core.AXIS:
        hs = [{'size': n, 'first': fst} for n in ((1 << 20), (1 << 20) + 1013, 1200000, 3 << 20) for fst in (0, 5)]
        for a in core.pmap(huge_task, hs if tier == 'thorough' else hs[:6]):
            acc.merge(a)
    residues = {k[1] for k in seen}
    caps = [acc.counters['bfs_cap_hit']] if 'bfs_cap_hit' in acc.counters else []
    if acc.counters.get('abstraction_mismatches'):
        caps.append('%d states behaved differently from their two representative histories: the abstraction is '
                    'not a bisimulation for this tree, so only the executed histories are covered'
                    % acc.counters['abstraction_mismatches'])
    desc = {
        'rule': 'BFS over abstract states (every Block1014 instance attribute, payload length mod 1012, trailer '
                'pending/written). From each state, each of two representative histories is replayed on a fresh real '
                'object and every write size of the menu (%s) is executed, then finalise(); the finalised bytes must '
                'equal the reference blocking of the bytes written (+ at most one trailing all-fill block). Each '
                'state is also finalised via finalise/seek(0)/close. A case = (state, write size, content coding); '
                'non-trivial when the write is non-empty. One-shot block_1014 compared with the reference for every '
                'payload length 0..%d.' % ('every n in 0..3040 plus 6000, 8191..8193, 10000, 16384, 20001, 39000' if tier == 'thorough' else
                                          'every n in 0..1016, r-2..r+2 (+1012, +2024), 6000, 8191..8193, 10000, 20001, '
                                          '2022..2028, 3034..3040, 6000; r = bytes free in the block', top),
        'assumptions': ['only the finalised output is judged (the statement does not constrain the file between '
                        'writes)', 'content codings: position code of period 251 without 0x00/0x40, all-0x40, '
                        'all-0x00, ASCII whitespace bytes', 'single writes above 39000 bytes are not explored'],
        'bounds': {'write_size_max': 3040 if tier == 'thorough' else 'menu', 'histories_per_state': 2,
                   'payload_residues_reached': len(residues)},
        'exhaustive': not caps and len(residues) == 1012,
        'caps_hit': caps,
    }
    if len(residues) != 1012 and not caps:
        desc['caps_hit'] = ['only %d of 1012 payload residues were reached' % len(residues)]
    extra = {'payload_residues_reached': len(residues), 'abstract_states': len(seen)}
    return acc, desc, extra


def replay_case(case):
    global _SEED
    _SEED = case.get('seed', 0)
    _PAY.clear()
    acc = core.Acc()
    if 'oneshot' in case:
        a = oneshot_task({'lo': case['oneshot'], 'hi': case['oneshot'] + 1})
        return a
    if 'header' in case:
        return header_task({'lo': case['len'], 'hi': case['len'] + 1})
    if 'huge' in case:
        return huge_task({'size': case['huge'], 'first': case['first']})
    if 'style' in case:
        return style_task({'lo': case['len'], 'hi': case['len'] + 1})
    hist = case['hist']
    if case.get('write') is None:
        f, b, off = build(hist, case['coding'])
        why = judge(finalise(f, b, case['how']), pay(case['coding'])[:off])
        if why:
            acc.viol('c04.final.%s' % case['how'], case, why)
        return acc
    k, why, delta = one_transition(hist, case['write'], case['coding'], case['how'])
    if why:
        acc.viol('c04.write.final', case, why)
    return acc


def selfcheck():
    blk_ref.selfcheck()
