"""
C02 - ISO8583 wire format conforms to the documented layout, in both directions.
E2: exhaustive enumeration of singles (each element x every admissible length / value variant), all pairs of
elements x boundary variants, structured long-message families; x configurations x codecs x bitmap renderings.
"""
from vf import core, isocheck, isogen
from vf.ref import iso_ref

PROPERTY = 'C02'
LEVEL = 'exploration'


def tasks(tier, seed):
    return isocheck.plan(tier, seed, 'C02')


def run_task(task):
    return isocheck.run_task(task)


def describe(tier, seed):
    ts = tasks(tier, seed)
    combos = sorted({(t['cfg'], t['enc'], t['hex']) for t in ts if t['fam'] == 'singles'})
    return {
        'rule': 'the C01 families (every element alone x every admissible variant incl. every length 1..99 / 1..999; '
                'every pair x boundary variants; long-message families) in %d (configuration, codec, bitmap) '
                'combinations, plus fixed text shorter than its width (padding side / pad character) and over-length '
                'variable values (LLVAR 100, 101, 999; LLLVAR 1000, 1001); a configuration of wide elements (FIXED text '
                'of 1002..2000 characters, 30/60-digit numbers, 31/40-digit decimals); numbers and decimals handed '
                'over as text (plain, zero-filled; with surplus leading zeros the number fits, so the reference bytes or '
                'a refusal are accepted, a shifted message is not); every message encoded again with its keys inserted '
                'in reverse order; calls with keyword options, positional arguments and codec aliases by turns; the '
                'package default configuration replaced between calls that pass no iso_config. Oracle: dumps(msg) is byte-identical to the '
                'reference encoder written from the documentation (MTI, bitmap with bit 1 and exactly the present '
                'bits, ascending elements, padding, decimal length prefixes, codec, binary ICC); loads(those bytes) '
                'is key-for-key equal to the reference decoder (PDSxxxx, TAGxxxx/ICC_DATA, DE43_* included); an '
                'over-length variable value must raise. A case is distinct by (cfg, codec, bitmap, element '
                'variants).' % len(combos),
        'assumptions': ['content of an over-wide FIXED value is not judged; field_length on variable fields is not '
                        'a maximum (documented: use zero)',
                        'EBCDIC x hex bitmap: 32 lowercase hex characters in ASCII or in the chosen codec are both '
                        'accepted', 'the reference codec (vf/ref/iso_ref.py) is trusted; it is self-checked on the '
                        'three documented example messages'],
        'bounds': {'combinations': [list(c) for c in combos][:40], 'tasks': len(ts)},
        'exhaustive': True,
    }


def replay_case(case):
    acc = core.Acc()
    if 'alt' in case:
        isocheck.check_sequence(case, acc, isocheck.check_conformance, 'c02')
    else:
        isocheck.check_conformance(case, acc, 'c02')
    return acc


def selfcheck():
    iso_ref.selfcheck()
