"""
C08 - Decoding accepts exactly the well-framed messages and never mis-frames one.
E4: the C07 corpus and mutation sets plus zero-length variable fields, bitmap bit flips, extensions and the full
byte alphabet in every length-prefix position (incl. codecs with non-ASCII decimal digits).
(=>) whenever loads returns, the message is re-tiled from the returned dict: every flagged element must occupy
its prefix plus exactly the declared bytes, hold the content of its own bytes, and the slots must tile the message.
(<=) whenever the strict reference decoder accepts, loads must accept and return the same dict.
"""
import datetime
import decimal

from vf import core, corpus
from vf.checks import c07
from vf.engine import faults
from vf.ref import iso_ref

PROPERTY = 'C08'
LEVEL = 'fault_enumeration'

BASES = [('plain', 'latin_1', False), ('plain', 'cp500', False), ('plain', 'latin_1', True), ('plain', 'cp864', False),
         ('pds', 'latin_1', False), ('pds', 'cp500', True), ('icc', 'latin_1', False), ('icc', 'cp500', False),
         ('de43', 'latin_1', False), ('typed', 'latin_1', False), ('typed', 'cp500', False), ('typed', 'ascii', True),
         ('gen', 'latin_1', False), ('min', 'latin_1', False), ('maxvar', 'latin_1', False), ('maxvar', 'cp500', True),
         ('z_de2', 'latin_1', False), ('z_pds', 'latin_1', False), ('z_icc', 'cp500', False), ('z_all', 'latin_1', False),
         ('z_all', 'cp500', True), ('u8_fixed', 'utf-8', False), ('u8_var', 'utf-8', False),
         ('wide', 'latin_1', False), ('wide', 'cp500', True), ('header', 'cp500', False), ('trailer', 'latin_1', False),
         ('trailer', 'cp500', False)]


def base_of(name, enc, hx):
    if name.startswith('z_'):
        data, st = corpus.zero_length_bases(enc, hx)[name]
        return data, st, corpus.cfg_of('PKG'), 'PKG'
    if name.startswith('u8_'):
        data, st = corpus.multibyte_bases()[name]
        return data, st, corpus.cfg_of('PKG'), 'PKG'
    return corpus.encoded(name, enc, hx)


def plain_digits(s):
    return len(s) > 0 and all(c in '0123456789' for c in s)


def retile(data, cfg, enc, hx, out):
    """-> None or (sig part, explanation)"""
    hdr = 36 if hx else 20
    if len(data) < hdr:
        return 'short_header', 'accepted a message shorter than MTI + bitmap'
    if hx:
        try:
            bitmap = bytes.fromhex(data[4:36].decode('ascii'))
        except (ValueError, UnicodeDecodeError):
            return None        # how a non-ASCII-hex bitmap was read cannot be reconstructed: not judged
    else:
        bitmap = data[4:20]
    pos = hdr
    flagged = set()
    for n in range(2, 128):
        if not bitmap[(n - 1) // 8] & (0x80 >> ((n - 1) % 8)):
            continue
        flagged.add(n)
        bc = cfg.get(str(n))
        if not bc:
            return 'unconfigured_bit', 'accepted although bit %d has no configuration' % n
        key = 'DE%d' % n
        if key not in out:
            return 'element_missing', 'bit %d is flagged but %s is not in the result' % (n, key)
        val = out[key]
        pl = iso_ref.prefix_len(bc)
        proc = bc.get('field_processor')
        typ = bc.get('field_python_type')
        if pl:
            praw = data[pos:pos + pl]
            if len(praw) != pl:
                return 'prefix_outside', 'length prefix of %s lies outside the message' % key
            try:
                ptxt = praw.decode(enc)
            except UnicodeDecodeError:
                return 'prefix_undecodable', 'accepted an undecodable length prefix for %s' % key
            lval = None
            if proc == 'ICC' and isinstance(val, (bytes, bytearray)):
                lval = len(val)
            elif proc == 'PAN':
                lval = None      # the masked form of a PAN shorter than 10 has another length (outside C16's domain)
            elif proc == 'PAN-PREFIX':
                lval = len(val.encode(enc, 'replace')) if isinstance(val, str) and len(val) < 9 else None
            elif typ in ('int', 'long', 'decimal', 'datetime'):
                lval = None
            elif isinstance(val, str):
                try:
                    lval = len(val.encode(enc))      # lengths on the wire count bytes
                except UnicodeEncodeError:
                    lval = None
            if plain_digits(ptxt):
                ln = int(ptxt)
                if lval is not None and lval != ln:
                    return 'length_mismatch', '%s declares %d bytes but its value has %d' % (key, ln, lval)
            else:
                try:
                    declared = int(ptxt)
                except ValueError:
                    declared = None
                if declared is not None and declared < 0:
                    return 'negative_length', '%s accepted with negative declared length %r' % (key, ptxt)
                ln = lval if lval is not None else declared
                if ln is None:
                    return None        # odd numeral and nothing to measure it against: not judged
        else:
            ln = bc['field_length']
        slot = data[pos + pl:pos + pl + ln]
        if len(slot) != ln:
            return 'past_end', '%s (%d bytes at %d) runs past the end of the %d-byte message' % (
                key, ln, pos + pl, len(data))
        # the value must be the content of its own bytes
        if proc == 'ICC':
            ok = (val == slot)
        else:
            try:
                text = slot.decode(enc)
            except UnicodeDecodeError:
                return 'undecodable_accepted', '%s bytes are not decodable yet the message was accepted' % key
            if proc == 'PAN':
                ok = len(text) < 10 or val == text[:6] + '*' * (len(text) - 10) + text[-4:]
            elif proc == 'PAN-PREFIX':
                ok = (val == text[:9])
            elif typ in ('int', 'long'):
                try:
                    ok = (int(text) == val)
                except ValueError:
                    ok = False
            elif typ == 'decimal':
                try:
                    ok = (decimal.Decimal(text) == val) or (val != val)
                except decimal.InvalidOperation:
                    ok = False
            elif typ == 'datetime':
                try:
                    ok = (datetime.datetime.strptime(text, bc.get('field_date_format', '%y%m%d')) == val)
                except ValueError:
                    ok = False
            else:
                ok = (val == text)
        if not ok:
            return 'foreign_bytes', '%s=%r is not the content of its own bytes %r at %d' % (
                key, val if not isinstance(val, (bytes, bytearray)) else bytes(val)[:20], slot[:24], pos + pl)
        pos += pl + ln
    if pos != len(data):
        return 'not_tiled', 'elements end at %d but the message has %d bytes' % (pos, len(data))
    for k in out:
        if k.startswith('DE') and k[2:].isdigit() and int(k[2:]) not in flagged:
            return 'invented_element', '%s is in the result but not flagged in the bitmap' % k
    return None


def check_case(case, acc, base=None):
    from cardutil import iso8583, CardutilError
    if base is None:
        base = base_of(case['msg'], case['enc'], case['hex'])
    data, struct, cfg, cfgname = base
    enc, hx = case['enc'], case['hex']
    bad = faults.apply(data, tuple(case['mut']) if case['mut'][0] != 'field' else
                       ('field', case['mut'][1], case['mut'][2]))
    status, val = faults.guarded(lambda: iso8583.loads(bad, encoding=enc, iso_config=cfg, hex_bitmap=hx), 3.0)
    verdict, ref = iso_ref.strict_decode(bad, cfg, enc, hx)
    lib = 'accept' if status == 'ok' else 'reject' if (status == 'exc' and isinstance(val, CardutilError)) else 'crash'
    acc.case((case['msg'], enc, hx, repr(case['mut'])), nontrivial=case['mut'][0] != 'none',
             outcome='lib:%s ref:%s' % (lib, verdict))
    if lib == 'crash':
        if status == 'hang':
            acc.count('hangs')
        if verdict == 'accept':
            # what kind of failure it is belongs to C07; that a well-framed message was NOT accepted belongs here
            acc.viol('c08.rejects_well_framed.crash', case, 'no result: %s' % (
                'no termination' if status == 'hang' else repr(val)), 'accepted',
                'well-framed message %s' % bad.hex()[:200])
        return
    if lib == 'accept':
        if not isinstance(val, dict):
            return
        why = retile(bad, cfg, enc, hx, val)
        if why:
            acc.viol('c08.misframed.' + why[0], case, why[1], 'elements tile the message exactly',
                     'message %s' % bad.hex()[:200])
            return
        if verdict == 'accept' and val != ref:
            diff = [k for k in sorted(set(val) | set(ref)) if val.get(k, '<absent>') != ref.get(k, '<absent>')]
            acc.viol('c08.reading_differs', case, '%s=%r' % (diff[0], val.get(diff[0], '<absent>')),
                     '%s=%r' % (diff[0], ref.get(diff[0], '<absent>')), 'accepted, but not with the reference reading')
        elif verdict == 'reject':
            acc.viol('c08.accepts_ill_framed', case, 'accepted', 'rejected: ' + str(ref),
                     'message %s' % bad.hex()[:200])
    else:
        if verdict == 'accept':
            acc.viol('c08.rejects_well_framed', case, 'rejected: %s' % val, 'accepted',
                     'well-framed message %s' % bad.hex()[:200])


CLOSURE_SYMBOLS = ['0', '1', '2', '3', '-', '+', ' ', 'A', 0xff]
# second alphabet: the digits of BOTH codec families as raw bytes (0x30.. are digits in ASCII-family codecs and control
# characters in EBCDIC, 0xf0.. the other way round): a numeral must be read in the codec of the message, whatever its
# bytes would mean elsewhere
CLOSURE_SYMBOLS_X = [0x30, 0x31, 0x32, 0x33, 0xf0, 0xf1, 0xf2, 0xf3, 'A']


def closure_pairs(cfgname, limit):
    """(variable-length bit a, later fixed bit b of width <= 3) pairs, plus every single variable-length bit"""
    from vf import isogen
    cfg = corpus.cfg_of(cfgname)
    bits = sorted(int(b) for b in cfg if 2 <= int(b) <= 127)
    var = [b for b in bits if iso_ref.prefix_len(cfg[str(b)])]
    small = [b for b in bits if not iso_ref.prefix_len(cfg[str(b)]) and cfg[str(b)]['field_length'] <= 3]
    out = [[a] for a in var[:limit]]
    for a in var:
        for b in small:
            if a < b and len(out) < limit * 3:
                out.append([a, b])
    return out


def check_closure_case(case, acc, cfg=None):
    """MTI + bitmap{bits} + a short string over the closure alphabet"""
    from cardutil import iso8583, CardutilError
    enc, hx = case['enc'], case['hex']
    cfg = cfg or corpus.cfg_of(case['cfg'])
    bm = bytearray(16)
    bm[0] |= 0x80
    for bit in case['bits']:
        bm[(bit - 1) // 8] |= 0x80 >> ((bit - 1) % 8)
    head = '1240'.encode(enc) + (bytes(bm).hex().encode('ascii') if hx else bytes(bm))
    symbols = CLOSURE_SYMBOLS_X if case.get('alphabet') == 'x' else CLOSURE_SYMBOLS
    tail = b''.join(c07.symbol_bytes(symbols[i], enc) for i in case['s'])
    bad = head + tail
    status, val = faults.guarded(lambda: iso8583.loads(bad, encoding=enc, iso_config=cfg, hex_bitmap=hx), 3.0)
    verdict, ref = iso_ref.strict_decode(bad, cfg, enc, hx)
    lib = 'accept' if status == 'ok' else 'reject' if (status == 'exc' and isinstance(val, CardutilError)) else 'crash'
    acc.case(('closure', case['cfg'], enc, hx, tuple(case['bits']), tuple(case['s']), case.get('alphabet')), nontrivial=True,
             outcome='lib:%s ref:%s' % (lib, verdict))
    if lib == 'crash':
        return
    if lib == 'accept' and isinstance(val, dict):
        why = retile(bad, cfg, enc, hx, val)
        if why:
            acc.viol('c08.misframed.' + why[0], case, why[1], 'elements tile the message exactly',
                     'element data %r, result %r' % (tail, {k: v for k, v in val.items() if k != 'MTI'}))
        elif verdict == 'accept' and val != ref:
            acc.viol('c08.reading_differs', case, repr(val)[:200], repr(ref)[:200])
        elif verdict == 'reject':
            acc.viol('c08.accepts_ill_framed', case, 'accepted', 'rejected: ' + str(ref), 'element data %r' % tail)
    elif lib == 'reject' and verdict == 'accept':
        acc.viol('c08.rejects_well_framed', case, 'rejected: %s' % val, 'accepted', 'element data %r' % tail)


def run_closure_task(task, acc):
    import itertools
    cfg = corpus.cfg_of(task['cfg'])
    first = True
    for bits in task['pairs']:
        for n in range(0, task['k'] + 1):
            for tup in itertools.product(range(len(CLOSURE_SYMBOLS)), repeat=n):
                case = {'kind': 'closure', 'cfg': task['cfg'], 'enc': task['enc'], 'hex': task['hex'], 'bits': bits,
                        's': list(tup)}
                if task.get('alphabet'):
                    case['alphabet'] = task['alphabet']
                if first and n == 3:
                    acc.sample(case)
                    first = False
                check_closure_case(case, acc, cfg)


def judge_one(bad, cfg, enc, hx, case, acc, note):
    """one decode judged by both directions of the oracle; -> True if a violation was recorded"""
    from cardutil import iso8583, CardutilError
    status, val = faults.guarded(lambda: iso8583.loads(bad, encoding=enc, iso_config=cfg, hex_bitmap=hx), 3.0)
    verdict, ref = iso_ref.strict_decode(bad, cfg, enc, hx)
    lib = 'accept' if status == 'ok' else 'reject' if (status == 'exc' and isinstance(val, CardutilError)) else 'crash'
    acc.outcome('seq lib:%s ref:%s' % (lib, verdict))
    if lib == 'crash':
        return False
    if lib == 'accept' and isinstance(val, dict):
        why = retile(bad, cfg, enc, hx, val)
        if why:
            acc.viol('c08.sequence.misframed.' + why[0], case, why[1], 'elements tile the message exactly', note)
            return True
        if verdict == 'accept' and val != ref:
            diff = [k for k in sorted(set(val) | set(ref)) if val.get(k, '<absent>') != ref.get(k, '<absent>')]
            acc.viol('c08.sequence.reading_differs', case, '%s=%r' % (diff[0], val.get(diff[0], '<absent>')),
                     '%s=%r' % (diff[0], ref.get(diff[0], '<absent>')), note)
            return True
        if verdict == 'reject':
            acc.viol('c08.sequence.accepts_ill_framed', case, 'accepted', 'rejected: ' + str(ref), note)
            return True
    elif lib == 'reject' and verdict == 'accept':
        acc.viol('c08.sequence.rejects_well_framed', case, 'rejected: %s' % val, 'accepted', note)
        return True
    return False


def check_sequence_case(case, acc):
    """(a) 'alt': the same process decodes messages under configuration A, then B, then A ... (same bits, other
    widths / types); (b) 'inplace': ONE configuration object whose entries are edited in place between decodes.
    Every decode is judged against the configuration as it is at that moment."""
    import copy
    acc.case(('seq', repr(case)), nontrivial=True, outcome='sequence')
    if case['kind'] == 'alt':
        for i, (name, enc, hx) in enumerate(case['steps']):
            data, st, cfg, _ = base_of(name, enc, hx)
            if judge_one(data, cfg, enc, hx, case, acc, 'step %d: %s under its own configuration after the others' % (
                    i + 1, name)):
                return
        return
    name, enc, hx = case['base']
    data, st, cfg0, _ = base_of(name, enc, hx)
    cfg = copy.deepcopy(cfg0)
    for i, edits in enumerate(case['edits']):
        for e in edits:
            from vf import isogen
            isogen.apply_edit(cfg, e)
        if judge_one(data, cfg, enc, hx, case, acc, 'step %d after in-place edits %s' % (i + 1, edits)):
            return


def sequence_cases():
    out = []
    names = [('plain', 'latin_1', False), ('gen', 'latin_1', False), ('typed', 'latin_1', False),
             ('pds', 'cp500', True), ('icc', 'cp500', False), ('maxvar', 'latin_1', False), ('z_all', 'latin_1', False)]
    import itertools as it
    for a, b in it.permutations(names, 2):
        out.append({'kind': 'alt', 'steps': [list(a), list(b), list(a)]})
    for a, b, c in it.permutations(names[:4], 3):
        out.append({'kind': 'alt', 'steps': [list(a), list(b), list(c), list(a), list(b)]})
    # in place: widen / narrow a fixed element, retype, move it between FIXED and LLVAR, then undo
    for base, bit, w in ((('plain', 'latin_1', False), 3, 6), (('plain', 'cp500', False), 22, 12),
                         (('typed', 'latin_1', False), 4, 12), (('gen', 'latin_1', False), None, None)):
        if bit is None:
            continue
        out.append({'kind': 'inplace', 'base': list(base), 'edits': [
            [], [['set', bit, 'field_length', w + 2]], [['set', bit, 'field_length', w - 1]],
            [['set', bit, 'field_length', w]], [['set', bit, 'field_type', 'LLVAR']],
            [['set', bit, 'field_type', 'FIXED']], []]})
    out.append({'kind': 'inplace', 'base': ['plain', 'latin_1', False], 'edits': [
        [], [['set', 2, 'field_type', 'LLLVAR']], [['set', 2, 'field_type', 'LLVAR']],
        [['set', 2, 'field_processor', 'PAN']], [['del', 2, 'field_processor']], []]})
    out.append({'kind': 'inplace', 'base': ['pds', 'latin_1', False], 'edits': [
        [], [['del', 48, 'field_processor']], [['set', 48, 'field_processor', 'PDS']],
        [['set', 49, 'field_python_type', 'int']], [['del', 49, 'field_python_type']], []]})
    return out


def mutations(data, struct, tier, enc):
    for m in c07.msg_mutations(data, struct, tier, enc):
        yield m
    # extension by 1..3 bytes
    for tail in ([0x20], [0x30], [0x00], [0x30, 0x30], [0x20, 0x20, 0x20]):
        yield ('ext', tail)
    # every bitmap bit flipped (binary bitmap positions; for hex bitmaps every hex digit is already substituted)
    for name, s, e in struct:
        if name == 'bitmap' and e - s == 16:
            for p in range(s, e):
                for bit in range(8):
                    yield ('sub', p, data[p] ^ (0x80 >> bit))
    # full byte alphabet in every length-prefix position is part of the substitutions above (all 256 values)


def tasks(tier, seed):
    ts = []
    of = 4 if tier == 'quick' else 8
    for name, enc, hx in BASES:
        for part in range(of):
            ts.append({'msg': name, 'enc': enc, 'hex': hx, 'part': part, 'of': of, 'tier': tier})
    k = 4 if tier == 'quick' else 5
    for cfgname, enc, hx in (('PKG', 'latin_1', False), ('PKG', 'cp500', False), ('GEN%d' % (seed % 14), 'latin_1', False),
                             ('GEN%d' % ((seed + 5) % 14), 'latin_1', True), ('CUSTOM', 'latin_1', False)):
        prs = closure_pairs(cfgname, 20 if tier == 'quick' else 60)
        for ch in core.spread(prs, 8 if tier == 'quick' else 32):
            ts.append({'closure': True, 'cfg': cfgname, 'enc': enc, 'hex': hx, 'pairs': ch, 'k': k})
    for cfgname, enc, hx in (('PKG', 'cp500', False), ('PKG', 'latin_1', False), ('CUSTOM', 'cp037', False)):
        prs = closure_pairs(cfgname, 12 if tier == 'quick' else 40)
        for ch in core.spread(prs, 8 if tier == 'quick' else 16):
            ts.append({'closure': True, 'cfg': cfgname, 'enc': enc, 'hex': hx, 'pairs': ch, 'k': 4, 'alphabet': 'x'})
    for ch in core.chunks(sequence_cases(), 8):
        ts.append({'sequences': ch})
    return ts


def run_task(task):
    acc = core.Acc()
    if task.get('closure'):
        run_closure_task(task, acc)
        return acc
    if task.get('sequences'):
        acc.sample(task['sequences'][0])
        for case in task['sequences']:
            check_sequence_case(case, acc)
        return acc
    base = base_of(task['msg'], task['enc'], task['hex'])
    muts = list(mutations(base[0], base[1], task['tier'], task['enc']))
    for i in range(task['part'], len(muts), task['of']):
        case = {'msg': task['msg'], 'enc': task['enc'], 'hex': task['hex'], 'mut': list(muts[i])}
        if i == task['part'] + task['of'] * 3:
            acc.sample(dict(case, base_len=len(base[0])))
        check_case(case, acc, base)
        if acc.counters.get('hangs', 0) >= 6:
            acc.count('tasks_cut_short_after_6_hangs')     # non-termination is C07's subject; do not burn hours here
            break
    return acc


def describe(tier, seed):
    return {
        'rule': '%d bases (reference-encoded plain / PDS / ICC / DE43 / typed / generated-config messages and hand-laid '
                'messages with zero-length variable elements; latin_1, cp500, ascii, cp864; binary and hex bitmap) x '
                '{unchanged; every truncation; every byte value at %s; insert/delete at every offset; pairs of '
                'structural positions x 11 values; every string over the 11-value alphabet in every length numeral; '
                'extension by 1..3 bytes; every bitmap bit flipped}; closure: MTI + bitmap{one variable-length bit, or a '
                'variable-length bit and a later fixed bit of width <= 3} + every string of length <= %d over 9 '
                'symbols (0 1 2 3 - + space A 0xFF), under packaged / custom / generated configurations; sequences: base messages decoded under '
                'alternating configurations (A, B, A and A, B, C, A, B) and under ONE configuration object edited in '
                'place between decodes (widths, field types, processors, python types). Oracle (=>): when loads returns, re-tile from the '
                'returned dict - each flagged element has a value, occupies prefix + declared bytes (plain-digit '
                'prefixes must equal the value length, negative lengths are never acceptable), the value is the '
                'content of its own bytes, slots are consecutive and end at the end of the message, no unflagged '
                'element appears. (<=): when the strict reference decoder accepts, loads accepts with the same dict; '
                'when it rejects (ill-framed), loads must not accept.' % (
                    len(BASES), 'every position' if tier == 'thorough' else
                    'every structural position and every 7th content position', 4 if tier == 'quick' else 5),
        'assumptions': ['numerals that are not plain ASCII digits (space, +, _, non-ASCII digits) are a don\'t-care '
                        'for acceptance but must still be framed exactly when accepted',
                        'PDS / ICC content that is not strictly tiled is a don\'t-care for acceptance (C07 judges '
                        'crashes, C12 well-formed content)', 'crashes and hangs are not reported here (C07)'],
        'bounds': {'deviations': 3, 'bases': len(BASES)},
        'exhaustive': True,
    }


def replay_case(case):
    acc = core.Acc()
    if case.get('kind') == 'closure':
        check_closure_case(case, acc)
    elif case.get('kind') in ('alt', 'inplace'):
        check_sequence_case(case, acc)
    else:
        check_case(case, acc)
    return acc


def selfcheck():
    iso_ref.selfcheck()
    for name, enc, hx in BASES:
        data, st, cfg, _ = base_of(name, enc, hx)
        v, r = iso_ref.strict_decode(data, cfg, enc, hx)
        if v != 'accept':
            raise core.Broken('base %s/%s is not accepted by the strict reference: %s' % (name, enc, r))
