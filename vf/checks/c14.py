"""
C14 - PVV, key check value and key-part combination match the published algorithms.
E2: PIN length x PAN length x key index crossed fully, 1-position digit deviations, 8/16/24-byte keys, vectors
constructed so that the second decimalisation scan supplies 0,1,2,3,4 digits, every ordered component list of
length 1..3 over 5 components; judged by a from-scratch DES reference.
"""
import itertools

from vf import core
from vf.ref import des_ref, pin_ref

PROPERTY = 'C14'
LEVEL = 'exploration'

PVV_KEYS = ['0123456789ABCDEF', '0123456789ABCDEFFEDCBA9876543210', '0123456789ABCDEFFEDCBA987654321089ABCDEF01234567',
            '00' * 16, 'FF' * 16]
COMPONENTS = ['6D6BE51F04F76167491554FE25F7ABEF', '67499B2CF137DFCB9EA28FF757CD10A7',
              '00000000000000000000000000000001', 'FFFFFFFFFFFFFFFFFFFFFFFFFFFFFFFF', '0123456789ABCDEFFEDCBA9876543210']
MASTER_KEYS = ['00' * 16, '0123456789ABCDEFFEDCBA9876543210', '0123456789ABCDEFFEDCBA987654321089ABCDEF01234567']


def digits(n, seed, salt):
    return ''.join('0123456789'[(i * 7 + seed + salt) % 10] for i in range(n))


def check_pvv(case, acc):
    from cardutil import pinblock
    pin, pan, idx, key = case['pin'], case['pan'], case['idx'], case['key']
    want, ct = pin_ref.visa_pvv(pin, pan, idx, bytes.fromhex(key))
    ndig = sum(1 for c in ct if c in '0123456789')
    acc.case(('pvv', pin, pan, idx, key, case.get('via')), nontrivial=True,
             outcome='scan2 supplies %d' % max(0, 4 - ndig))
    via = case.get('via', 'func')
    try:
        if via == 'func':
            got = pinblock.calculate_pvv(pin, key, idx, pan)
            got_kw = pinblock.calculate_pvv(pin=pin, pvv_key=key, key_index=idx, card_number=pan)
            if got_kw != got:
                acc.viol('c14.pvv.keyword_call', case, got_kw, got, 'calculate_pvv with keyword arguments differs '
                         'from the positional call')
                return
        elif via == 'iso0':
            got = pinblock.Iso0TDESPinBlockWithVisaPVV(pin=pin, card_number=pan).to_pvv(pvv_key=key, key_index=idx)
        else:
            got = pinblock.Iso4AESPinBlockWithVisaPVV(pin=pin, random_value=1).to_pvv(
                pvv_key=key, key_index=idx, card_number=pan)
    except Exception as ex:
        acc.viol('c14.pvv.exception.%s' % ('pin4' if len(pin) == 4 else 'pin_longer'), case, repr(ex), want,
                 'PIN length %d, via %s' % (len(pin), via))
        return
    if got != want:
        acc.viol('c14.pvv.value.scan2_%d' % max(0, 4 - ndig), case, got, want,
                 'ciphertext %s has %d decimal digits' % (ct, ndig))


def find_vector(key_hex, k, seed):
    """a (pin, pan, idx) whose TSP encrypts under key to a ciphertext with exactly k decimal digits: search target
    ciphertexts in a fixed order, decrypt, keep the first plaintext that is 16 decimal digits"""
    key = bytes.fromhex(key_hex)
    letters = 'ABCDEF'
    n = 0
    for tup in itertools.product(range(6), repeat=7):
        n += 1
        body = ''.join(letters[(t + seed) % 6] for t in tup)
        tail = ''.join(letters[(i * 5 + tup[0] + tup[3]) % 6] for i in range(9))
        ct = list((body + tail)[:16])
        for j in range(k):
            ct[(j * 5 + 2 + tup[1]) % 16] = '0123456789'[(j * 3 + tup[2] + seed) % 10]
        if sum(1 for c in ct if c in '0123456789') != k:
            continue
        pt = des_ref.tdes_ecb_decrypt(key, bytes.fromhex(''.join(ct))).hex()
        if all(c in '0123456789' for c in pt):
            return {'pin': pt[12:], 'pan': '4' + pt[:11] + '7', 'idx': int(pt[11]), 'key': key_hex,
                    'trials': n, 'target': ''.join(ct)}
    raise core.Broken('no decimalisation vector found for k=%d' % k)


def check_keys(case, acc):
    from cardutil import key as keymod
    kind = case['kind']
    if kind == 'kcv':
        k = bytes.fromhex(case['key'])
        acc.case(('kcv', case['key'], case['len']), nontrivial=True, outcome='kcv')
        want = pin_ref.kcv(k, case['len']) if case['len'] <= 16 else None
        try:
            got = keymod.calculate_kcv(k, case['len']) if case['len'] != 6 or case.get('explicit') \
                else keymod.calculate_kcv(k)
            got_kw = keymod.calculate_kcv(binary_key=k, kvc_length=case['len'])
            if got_kw != got:
                acc.viol('c14.kcv.keyword_call', case, got_kw, got, 'calculate_kcv(binary_key=, kvc_length=) differs '
                         'from the positional call')
                return
        except Exception as ex:
            acc.viol('c14.kcv.exception', case, repr(ex), want)
            return
        if got.lower() != want:
            acc.viol('c14.kcv.value', case, got, want, 'leading hex digits of 3DES(zeros)')
        return
    parts = [COMPONENTS[i] for i in case['parts']]
    want_key = pin_ref.xor_hex(parts)
    want_kcv = pin_ref.kcv(bytes.fromhex(want_key))
    acc.case((kind, tuple(case['parts']), case.get('master')), nontrivial=True, outcome=kind)
    try:
        if kind == 'zmk':
            got_key, got_kcv = keymod.get_zone_master_key(*parts)
        else:
            got_key, got_kcv = keymod.get_enc_zone_master_key(case['master'], *parts)
            want_key = des_ref.tdes_ecb_encrypt(bytes.fromhex(case['master']), bytes.fromhex(want_key)).hex()
    except Exception as ex:
        acc.viol('c14.%s.exception' % kind, case, repr(ex), want_key)
        return
    if got_key.lower() != want_key.lower():
        acc.viol('c14.%s.key' % kind, case, got_key, want_key,
                 'XOR of the components' + (' encrypted under the master key' if kind == 'enc_zmk' else ''))
    elif got_kcv.lower() != want_kcv:
        acc.viol('c14.%s.kcv' % kind, case, got_kcv, want_kcv, 'check value of the combined key')


def check_poison(case, acc):
    """calls whose inputs are NOT in the domain (2-digit PIN, 11-digit PAN, 3-character index, short key ...): whatever
    they do (raise, return something), the valid PVV / key calls that follow in the same process must be unaffected.
    The case itself only makes the calls; the following cases of the sequence are the oracle."""
    from cardutil import pinblock, key as keymod
    acc.case(('poison', case['n']), nontrivial=False, outcome='invalid calls made')
    key = PVV_KEYS[case['n'] % len(PVV_KEYS)]
    for args in (('12', key, 1, '4000001234562'), ('1234', key, 1, '40000012345'), ('1234', key, 123, '4000001234562'),
                 ('1234', key, 1, ''), ('', key, 1, '4000001234562'), ('12345678', key, 'A', '4000001234562'),
                 ('1234', key[:-2], 1, '4000001234562'), ('12a4', key, 1, '4000001234562')):
        try:
            pinblock.calculate_pvv(*args)
        except Exception:
            pass
    for fn in (lambda: keymod.calculate_kcv(b'short'), lambda: keymod.get_zone_master_key('00', '11'),
               lambda: keymod.get_zone_master_key(COMPONENTS[0], COMPONENTS[1][:-2]),
               lambda: keymod.get_enc_zone_master_key('00' * 3, COMPONENTS[0]),
               lambda: keymod.calculate_kcv(bytes.fromhex(COMPONENTS[0]), 0)):
        try:
            fn()
        except Exception:
            pass


def check_pvv_reuse(case, acc):
    """ONE pin block object asked for several PVVs in a row (other card number for the format-4 block, which carries
    none; other key / key index for both): every answer is the Visa PVV of the inputs of THAT call"""
    from cardutil import pinblock
    pin = case['pin']
    acc.case(('pvv_reuse', pin, repr(case['calls']), case['via']), nontrivial=True, outcome='same object reused')
    try:
        if case['via'] == 'iso0':
            pb = pinblock.Iso0TDESPinBlockWithVisaPVV(pin=pin, card_number=case['calls'][0][0])
        else:
            pb = pinblock.Iso4AESPinBlockWithVisaPVV(pin=pin, random_value=7)
        for i, (pan, idx, key) in enumerate(case['calls']):
            own = case['calls'][0][0] if case['via'] == 'iso0' else pan
            want, ct = pin_ref.visa_pvv(pin, own, idx, bytes.fromhex(key))
            if case['via'] == 'iso0':
                got = pb.to_pvv(pvv_key=key, key_index=idx)
            elif i % 2:
                got = pb.to_pvv(key, idx, pan)
            else:
                got = pb.to_pvv(pvv_key=key, key_index=idx, card_number=pan)
            if got != want:
                acc.viol('c14.pvv.same_object', case, 'call %d gave %s' % (i + 1, got), want,
                         'call %d of %d on one object: card number %s, index %d' % (i + 1, len(case['calls']), own, idx))
                return
    except Exception as ex:
        acc.viol('c14.pvv.same_object.exception', case, repr(ex), 'four decimal digits per call')


def replay_into(case, acc):
    if case['kind'] == 'poison':
        check_poison(case, acc)
    elif case['kind'] == 'pvv_reuse':
        check_pvv_reuse(case, acc)
    elif case['kind'] == 'pvv':
        check_pvv(case, acc)
    else:
        check_keys(case, acc)


def tasks(tier, seed):
    cases = []
    for pl in range(4, 13):
        for nl in range(13, 20):
            for idx in range(10):
                pin, pan = digits(pl, seed, 3 + idx), digits(nl, seed, 5 + pl)
                for ki, key in enumerate(PVV_KEYS[:3]):
                    cases.append({'kind': 'pvv', 'pin': pin, 'pan': pan, 'idx': idx, 'key': key})
                cases.append({'kind': 'pvv', 'pin': pin, 'pan': pan, 'idx': idx, 'key': PVV_KEYS[1],
                              'via': 'iso0' if (pl + nl + idx) % 2 else 'iso4'})
            # 1-position deviations
            pin, pan = digits(pl, seed, 1), digits(nl, seed, 2)
            for where, s in (('pin', pin), ('pan', pan)):
                for pos in range(len(s)):
                    for d in '0123456789':
                        if d == s[pos]:
                            continue
                        if tier == 'quick' and d not in '059' and not (where == 'pin' and pos < 5):
                            continue
                        s2 = s[:pos] + d + s[pos + 1:]
                        cases.append({'kind': 'pvv', 'pin': s2 if where == 'pin' else pin,
                                      'pan': s2 if where == 'pan' else pan, 'idx': (pos + pl) % 10,
                                      'key': PVV_KEYS[1]})
    # card numbers / PINs that start with a digit string written in the library's own source
    from vf import literals
    for d in literals.harvest()['digits']:
        for nl in (13, 16, 19):
            cases.append({'kind': 'pvv', 'pin': digits(4 + len(d) % 9, seed, 2), 'pan': (d + digits(nl, seed, 7))[:nl],
                          'idx': len(d) % 10, 'key': PVV_KEYS[1]})
        if len(d) <= 12:
            cases.append({'kind': 'pvv', 'pin': (d + digits(12, seed, 3))[:max(4, len(d))], 'pan': digits(16, seed, 6),
                          'idx': 1, 'key': PVV_KEYS[1], 'via': 'iso4'})
    for key in PVV_KEYS[3:]:
        for pl in (4, 5, 12):
            cases.append({'kind': 'pvv', 'pin': digits(pl, seed, 0), 'pan': digits(16, seed, 9), 'idx': 1, 'key': key})
    pvv_cases = cases
    cases = []
    # key management
    for n in (1, 2, 3):
        for parts in itertools.product(range(len(COMPONENTS)), repeat=n):
            cases.append({'kind': 'zmk', 'parts': list(parts)})
            for mi, mk in enumerate(MASTER_KEYS):
                if n < 3 or mi == (sum(parts) % 3):
                    cases.append({'kind': 'enc_zmk', 'parts': list(parts), 'master': mk})
    for key in COMPONENTS + MASTER_KEYS + ['0123456789ABCDEF']:
        for ln in (4, 6, 16):
            cases.append({'kind': 'kcv', 'key': key, 'len': ln, 'explicit': True})
        cases.append({'kind': 'kcv', 'key': key, 'len': 6})
    # sequences whose members share parts of their inputs (same component SET in another order / multiplicity,
    # same PIN and PAN under another key or index): a result remembered under too coarse a key shows here
    seq = []
    for a, b in itertools.permutations(range(len(COMPONENTS)), 2):
        for parts in ([a, b], [a, b, a], [b], [a, b, b], [a], [b, a], [a, a], [a, b]):
            seq.append({'kind': 'zmk', 'parts': parts})
            seq.append({'kind': 'enc_zmk', 'parts': parts, 'master': MASTER_KEYS[(a + b) % 3]})
            seq.append({'kind': 'enc_zmk', 'parts': parts, 'master': MASTER_KEYS[(a + b + 1) % 3]})
    pin, pan = digits(6, seed, 4), digits(16, seed, 6)
    for key in PVV_KEYS:
        for idx in (1, 2, 1):
            seq.append({'kind': 'pvv', 'pin': pin, 'pan': pan, 'idx': idx, 'key': key})
            seq.append({'kind': 'pvv', 'pin': pin[:4] + '99', 'pan': pan, 'idx': idx, 'key': key})
            seq.append({'kind': 'pvv', 'pin': pin, 'pan': '9' + pan[1:], 'idx': idx, 'key': key})
            seq.append({'kind': 'pvv', 'pin': pin, 'pan': pan[:-1] + '0', 'idx': idx, 'key': key, 'via': 'iso0'})
    for key in COMPONENTS + MASTER_KEYS:
        for ln in (6, 4, 16, 6):
            seq.append({'kind': 'kcv', 'key': key, 'len': ln, 'explicit': True})
    # one object, several questions
    pans = [digits(16, seed, 6), '9' + digits(15, seed, 2), digits(13, seed, 8), digits(19, seed, 1)]
    for pl in (4, 6, 12):
        pin = digits(pl, seed, 4)
        for a, b in itertools.permutations(range(len(pans)), 2):
            for via in ('iso4', 'iso0'):
                seq.append({'kind': 'pvv_reuse', 'via': via, 'pin': pin, 'calls': [
                    [pans[a], 1, PVV_KEYS[1]], [pans[b], 1, PVV_KEYS[1]], [pans[a], 2, PVV_KEYS[1]],
                    [pans[b], 2, PVV_KEYS[0]], [pans[a], 1, PVV_KEYS[1]]]})
    ts = [{'cases': ch} for ch in core.chunks(pvv_cases, 60)]
    ts.append({'cases': cases})          # all key-management cases in one task, in enumeration order
    ts.append({'cases': seq})
    ts.append({'cases': list(reversed(seq))})
    # the same sequences with calls on inputs outside the domain interleaved (every 7th position)
    poisoned = []
    for i, c in enumerate(seq):
        if i % 7 == 0:
            poisoned.append({'kind': 'poison', 'n': i // 7})
        poisoned.append(c)
    ts.append({'cases': poisoned})
    ts.append({'cases': [{'kind': 'poison', 'n': 0}] + cases + [{'kind': 'poison', 'n': 1}] + pvv_cases[:400]})
    for k in range(0, 5):
        for ki in ((0, 1, 2) if tier == 'thorough' else (k % 3,)):
            ts.append({'vector': k, 'key': PVV_KEYS[ki], 'seed': seed})
    return ts


def run_task(task):
    acc = core.Acc()
    if 'vector' in task:
        v = find_vector(task['key'], task['vector'], task['seed'])
        base = {'kind': 'pvv', 'pin': v['pin'], 'pan': v['pan'], 'idx': v['idx'], 'key': v['key']}
        acc.sample(dict(base, decimal_digits_in_ciphertext=task['vector'], search_trials=v['trials']))
        acc.count('decimalisation_vectors_found')
        for via in ('func', 'iso0', 'iso4'):
            check_pvv(dict(base, via=via), acc)
        # longer PINs share the first four digits, and other PAN prefixes share the last 12
        for extra in ('5', '99', '12345678'):
            check_pvv(dict(base, pin=v['pin'] + extra), acc)
        check_pvv(dict(base, pan='555' + v['pan'][1:]), acc)
        return acc
    for i, case in enumerate(task['cases']):
        if i == 0:
            acc.sample(case)
        replay_into(case, acc)
    return acc


def describe(tier, seed):
    return {
        'rule': 'PVV: PIN length 4..12 x PAN length 13..19 x key index 0..9 crossed fully under 8-, 16- and 24-byte keys '
                '(+ all-zero / all-FF keys), through calculate_pvv and both to_pvv mix-ins; every PIN / PAN position x '
                'digits (1 deviation); decimalisation vectors found by decrypting target ciphertexts with exactly '
                'k=0..4 decimal digits until the plaintext is a 16-digit TSP, so the second scan supplies 4,3,2,1,0 '
                'digits. Keys: every ordered component list of length 1..3 over 5 components (order independence, '
                'cancellation), encrypted zone key under 3 master keys, KCV lengths 4/6/16. Oracle: pin_ref + des_ref '
                '(FIPS 46-3 from scratch); PVV always 4 decimal digits. Distinct by all parameters.',
        'assumptions': ['key components are double-length (16-byte) keys', 'PIN/PAN are decimal digit strings',
                        'des_ref self-checked against published known answers at start-up'],
        'bounds': {'pin_lengths': [4, 12], 'pan_lengths': [13, 19], 'key_index': [0, 9], 'component_lists': 155},
        'exhaustive': True,
    }


def replay_case(case):
    acc = core.Acc()
    replay_into({k: v for k, v in case.items()}, acc)
    return acc


def selfcheck():
    des_ref.selfcheck()
    pin_ref.selfcheck()
    # published Visa PVV example (IBM): also one of the library's own test vectors
    want, _ = pin_ref.visa_pvv('1234', '4000001234562', 1, bytes.fromhex('0123456789ABCDEFFEDCBA9876543210'))
    if len(want) != 4 or not want.isdigit():
        raise core.Broken('pvv reference')
