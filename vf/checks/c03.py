"""
C03 - VBS framing: any record list survives write then read, with byte-exact layout.

E2: exhaustive enumeration of single-record files (every length 1..6000), all ordered pairs / triples over a
boundary alphabet, long runs, content codings that look like fill / terminators / length prefixes, three APIs,
blocked and unblocked, three MAX_VBS_RECORD_LENGTH settings.
"""
import io
import itertools

from vf import core
from vf.ref import blk_ref, vbs_ref

PROPERTY = 'C03'
LEVEL = 'exploration'

PAIR_ALPHABET = [1, 2, 3, 4, 5] + list(range(1003, 1021)) + list(range(2019, 2031)) + [3030, 4040, 5999, 6000]
TRIPLE_ALPHABET = [1, 4, 1004, 1007, 1008, 1009, 1012, 1016, 2020, 2024, 3036, 6000]
APIS = ['class_close', 'class_with', 'func']
CODINGS = ['pos', 'zero', 'fill', 'zeros4', 'prefixlike']


def content(coding, n, off, seed):
    if coding == 'pos':
        src = _src(seed)
        off %= 251
        return src[off:off + n]
    if coding == 'zero':
        return b'\x00' * n
    if coding == 'fill':
        return b'\x40' * n
    if coding == 'zeros4':     # 00 00 00 00 runs between visible bytes
        return (b'\x00\x00\x00\x00\x41' * (n // 5 + 1))[:n]
    if coding == 'prefixlike':  # bytes that spell a plausible 4-byte length
        return (b'\x00\x00\x00\x03abc\x00\x00\x03\xf4' * (n // 11 + 1))[:n]
    if coding.startswith('byte'):      # records made of one byte value only: 'byte32' = all spaces ...
        return bytes([int(coding[4:])]) * n
    if coding == 'crlf':
        return (b'\r\n' * (n // 2 + 1))[:n]
    if coding == 'ws':
        return (b' \t\n\r\x0b\x0c' * (n // 6 + 1))[:n]
    raise core.Broken(coding)


_SRC = {}


def _src(seed):
    if seed not in _SRC:
        _SRC[seed] = blk_ref.position_code(7000, seed)
    return _SRC[seed]


def write_read(recs, blocked, api, fobj='bytesio'):
    """-> (file bytes, records read back) through the real library"""
    from cardutil import mciipm
    if fobj != 'bytesio':
        # a real file on disk for the writer (the writer needs seek(), so only seekable sinks are in its contract),
        # and the produced bytes read back from a real file, a non-seekable stream or an object with only read();
        # 'blocked' is passed positionally here
        from vf import fileobjs
        f, content, done = fileobjs.writer('legacy' if (len(recs) + len(recs[0])) % 2 else 'file')
        try:
            if api == 'class_close':
                w = mciipm.VbsWriter(f, blocked)
                for r in recs:
                    w.write(r)
                w.close()
            else:
                with mciipm.VbsWriter(f, blocked) as w:
                    w.write_many(recs)
            data = content()
        finally:
            done()
        src, done = fileobjs.reader(fobj, data)
        try:
            back = list(mciipm.VbsReader(src, blocked))
        finally:
            done()
        return data, back
    if fobj == 'bytesio' and api.startswith('style:'):
        # how a copy loop really writes: ONE mutable buffer refilled for every record (what was passed must not be
        # kept by reference), flush() between the writes (flushing is not finalising)
        style = api.split(':')[1]
        f = io.BytesIO()
        buf = bytearray(max([len(r) for r in recs] + [1]))
        w = mciipm.VbsWriter(f, blocked=blocked)
        for i, r in enumerate(recs):
            if 'reuse' in style:
                buf[:len(r)] = r
                w.write(memoryview(buf)[:len(r)] if i % 2 else bytearray(buf[:len(r)]) if i % 3 == 0 else
                        memoryview(buf)[:len(r)])
                for j in range(len(buf)):
                    buf[j] = 0x5a
            else:
                w.write(r)
            if 'flush' in style:
                w.flush()
        w.close()
        data = f.getvalue()
        back = list(mciipm.VbsReader(io.BytesIO(data), blocked=blocked))
        return data, back
    if api == 'func':
        data = mciipm.vbs_list_to_bytes(recs, blocked=blocked)
        back = mciipm.vbs_bytes_to_list(data, blocked=blocked)
        return data, back
    f = io.BytesIO()
    if api == 'class_close':
        w = mciipm.VbsWriter(f, blocked=blocked)
        for i, r in enumerate(recs):
            # the record as bytes / bytearray / memoryview by turns
            w.write(r if (i + len(r)) % 3 == 0 else bytearray(r) if (i + len(r)) % 3 == 1 else memoryview(r))
        w.close()
    else:
        with mciipm.VbsWriter(f, blocked=blocked) as w:
            # write_many takes "an iterable": a list, a generator, a map object, an iterator - by turns
            k = (len(recs) + len(recs[0])) % 4
            w.write_many(recs if k == 0 else (r for r in recs) if k == 1 else map(bytes, recs) if k == 2 else iter(recs))
    data = f.getvalue()
    back = list(mciipm.VbsReader(io.BytesIO(data), blocked=blocked))
    return data, back


def judge(recs, blocked, data, back):
    stream = vbs_ref.frame(recs)
    if not blocked:
        if data != stream:
            return 'unblocked file is not length-prefix/record/.../zero-length (len %d, expected %d)' % (
                len(data), len(stream))
    else:
        why = blk_ref.wellformed(data)
        if why:
            return 'blocked file: ' + why
        pl = blk_ref.payload(data)
        if pl[:len(stream)] != stream:
            return 'blocked payload does not start with the VBS stream'
        if pl[len(stream):].strip(b'\x40'):
            return 'blocked payload has non-0x40 bytes after the VBS stream'
        if len(data) > (-(-len(stream) // 1012) + 1) * 1014:
            return 'more than one trailing all-fill block'
    if back != recs:
        return 'read back %d records (lengths %s), wrote %d (lengths %s)' % (
            len(back), [len(r) for r in back][:5], len(recs), [len(r) for r in recs][:5])
    return None


def check_case(case, acc):
    """case: {'lens': [...], 'coding':, 'blocked':, 'api':, 'seed':, 'max': optional MAX_VBS_RECORD_LENGTH}"""
    from cardutil import config
    lens, coding, blocked, api = case['lens'], case['coding'], case['blocked'], case['api']
    recs = []
    off = 0
    for n in lens:
        recs.append(content(coding, n, off, case.get('seed', 0)))
        off += n
    acc.case((tuple(lens) if len(lens) < 8 else (len(lens), lens[0]), coding, blocked, api, case.get('max'),
              case.get('fobj')),
             nontrivial=True, outcome=('blocked' if blocked else 'vbs'))
    old = config.config.get('MAX_VBS_RECORD_LENGTH')
    try:
        if case.get('max') is not None:
            config.config['MAX_VBS_RECORD_LENGTH'] = case['max']
        try:
            data, back = write_read(recs, blocked, api, case.get('fobj', 'bytesio'))
        except Exception as ex:
            acc.viol('c03.exception.%s' % api, case, repr(ex), 'records written and read back')
            return
    finally:
        config.config['MAX_VBS_RECORD_LENGTH'] = old
    why = judge(recs, blocked, data, back)
    if why:
        acc.viol('c03.%s.%s' % ('blocked' if blocked else 'vbs', 'layout' if 'file' in why or 'payload' in why
                                 or 'block' in why else 'readback'), case, why, 'exact framing and read-back')


def tasks(tier, seed):
    ts = []
    # (a) single-record files: every length 1..6000
    step = 125
    for lo in range(1, 6001, step):
        ts.append({'kind': 'singles', 'lo': lo, 'hi': min(lo + step, 6001), 'seed': seed, 'tier': tier})
    # (b) pairs / triples
    pairs = [[a, b] for a in PAIR_ALPHABET for b in PAIR_ALPHABET]
    triples = [[a, b, c] for a in TRIPLE_ALPHABET for b in TRIPLE_ALPHABET for c in TRIPLE_ALPHABET]
    for ch in core.spread(pairs + triples, 48):
        ts.append({'kind': 'lists', 'lists': ch, 'seed': seed, 'tier': 'thorough'})
    if tier == 'thorough':
        big = [[a, b, c] for a in PAIR_ALPHABET for b in PAIR_ALPHABET for c in PAIR_ALPHABET]
        q = [1, 1004, 1008, 1012, 1016, 2020, 3036, 6000]
        big += [list(t) for t in itertools.product(q, repeat=4)]
        for ch in core.spread(big, 64):
            ts.append({'kind': 'lists', 'lists': ch, 'seed': seed, 'tier': 'quick'})
    # (c) many records
    many = []
    for k in (10, 100, 1000):
        for n in (1, 3, 7, 20, 249, 250):
            many.append([n] * k)
    many.append([1 + (i * 37) % 300 for i in range(500)])
    many.append([6000] * 12)
    for ch in core.spread(many, 16):
        ts.append({'kind': 'lists', 'lists': ch, 'seed': seed, 'tier': 'quick'})
    # (d) other configured maxima: records at the maximum must survive
    ts.append({'kind': 'maxcfg', 'seed': seed})
    # (e) records made of ONE byte value (every value 0..255) or of whitespace bytes only
    uni = []
    for v in range(256):
        for lens in ([1], [2], [5], [1012], [3000], [1, 1, 1], [4, 1008]):
            uni.append({'lens': lens, 'coding': 'byte%d' % v})
    for coding in ('crlf', 'ws'):
        for lens in ([1], [2], [3], [6], [80], [1012], [2, 2], [80, 1, 80]):
            uni.append({'lens': lens, 'coding': coding})
    for ch in core.chunks(uni, 32):
        ts.append({'kind': 'uniform', 'items': ch, 'seed': seed})
    # (e2) writing styles: a reused mutable buffer, flush() between writes
    sq = [1, 3, 4, 5, 1004, 1008, 1012, 1016, 2020]
    sl = [[a] for a in sq] + [[a, b] for a in sq for b in sq] + [[a, b, c] for a in (3, 1008, 1012) for b in (4, 1004, 2020)
                                                                 for c in (1, 1012)] + [[7] * 400]
    for ch in core.spread(sl, 8):
        ts.append({'kind': 'styles', 'lists': ch, 'seed': seed})
    # (f) other kinds of file object; files beyond 1 MiB (nothing in the statement bounds the size)
    q = [1, 4, 1004, 1008, 1012, 2020, 6000]
    fl = [[a] for a in q] + [[a, b] for a in q for b in q] + [[250] * 100]
    kinds = ('file', 'pipe', 'minimal', 'smallbuf', 'zip', 'mmap')
    items = [{'lens': lens, 'fobj': kinds[i % 6]} for i, lens in enumerate(fl)]
    # record COUNTS beyond 10 000 (a counter, a progress message, a periodic flush ...) on every kind of reader
    items += [{'lens': [3] * 12000, 'fobj': k} for k in ('bytesio',) + kinds]
    items += [{'lens': [1] * 70000, 'fobj': 'pipe'}, {'lens': [2] * 33000, 'fobj': 'minimal'}]
    items += [{'lens': [6000] * 180, 'fobj': k} for k in ('bytesio', 'file', 'pipe')]
    items += [{'lens': [5000] * 420, 'fobj': 'bytesio'}, {'lens': [997] * 2100, 'fobj': 'minimal'}]
    for ch in core.spread(items, 16):
        ts.append({'kind': 'fileobjs', 'items': ch, 'seed': seed})
    return ts


def run_task(task):
    acc = core.Acc()
    seed = task['seed']
    if task['kind'] == 'singles':
        for n in range(task['lo'], task['hi']):
            for blocked in (False, True):
                for api in APIS:
                    for coding in CODINGS:
                        case = {'lens': [n], 'coding': coding, 'blocked': blocked, 'api': api, 'seed': seed}
                        if n == task['lo'] and not blocked and coding == 'pos' and api == 'class_close':
                            acc.sample(case)
                        check_case(case, acc)
    elif task['kind'] == 'lists':
        for i, lens in enumerate(task['lists']):
            for blocked in (False, True):
                for api in (APIS if task['tier'] == 'thorough' else (APIS[i % 3],)):
                    for coding in (('pos', 'zero', 'fill') if len(lens) < 4 else ('pos',)):
                        case = {'lens': lens, 'coding': coding, 'blocked': blocked, 'api': api, 'seed': seed}
                        if i == 0 and blocked and coding == 'pos':
                            acc.sample(case if len(lens) < 20 else dict(case, lens='%d x %d' % (len(lens), lens[0])))
                        check_case(case, acc)
    elif task['kind'] == 'uniform':
        for i, it in enumerate(task['items']):
            for blocked in (False, True):
                for api in APIS:
                    case = {'lens': it['lens'], 'coding': it['coding'], 'blocked': blocked, 'api': api, 'seed': seed}
                    if i == 0 and blocked and api == 'func':
                        acc.sample(case)
                    check_case(case, acc)
    elif task['kind'] == 'styles':
        for i, lens in enumerate(task['lists']):
            for blocked in (False, True):
                for style in ('flush', 'reuse', 'reuse+flush'):
                    case = {'lens': lens, 'coding': 'pos', 'blocked': blocked, 'api': 'style:' + style, 'seed': seed}
                    if i == 0 and blocked and style == 'reuse':
                        acc.sample(case)
                    check_case(case, acc)
    elif task['kind'] == 'fileobjs':
        for i, it in enumerate(task['items']):
            for blocked in (False, True):
                for api in (('class_close', 'class_with') if it['fobj'] != 'bytesio' else APIS):
                    case = {'lens': it['lens'], 'coding': 'pos', 'blocked': blocked, 'api': api, 'seed': seed,
                            'fobj': it['fobj']}
                    if i == 0 and blocked:
                        acc.sample(case if len(it['lens']) < 20 else dict(case, lens='%d x %d' % (
                            len(it['lens']), it['lens'][0])))
                    check_case(case, acc)
    elif task['kind'] == 'maxcfg':
        for mx in (10, 1012, 6000, 20000):
            for lens in ([mx], [mx - 1], [1, mx], [mx, mx]):
                for blocked in (False, True):
                    for api in APIS:
                        case = {'lens': lens, 'coding': 'pos', 'blocked': blocked, 'api': api, 'seed': seed, 'max': mx}
                        check_case(case, acc)
        acc.sample({'lens': [1012], 'max': 1012, 'note': 'MAX_VBS_RECORD_LENGTH set to the record length'})
    return acc


def describe(tier, seed):
    return {
        'rule': 'single-record files for every record length 1..6000 x {VBS, 1014} x 3 APIs (class+close, context '
                'manager+write_many, vbs_list_to_bytes/vbs_bytes_to_list) x content codings (position code; 0x00; '
                '0x40; 00000000 runs; length-prefix look-alikes); all ordered pairs over a %d-length '
                'boundary alphabet and triples over a %d-length one%s; runs of 10/100/1000 small records, 12 x 6000; '
                'MAX_VBS_RECORD_LENGTH in {10, 1012, 6000, 20000} with records at the maximum; records made of one byte '
                'value only (every value 0..255, lengths 1, 2, 5, 1012, 3000 and short lists) or of whitespace bytes '
                'only. Oracle: unblocked '
                'bytes == reference framing exactly; blocked file well-formed with that stream as payload + 0x40 '
                'fill; records read back equal. A case is distinct by (length list, coding, format, API).'
                % (len(PAIR_ALPHABET), len(TRIPLE_ALPHABET),
                   ' (thorough: all triples over the pair alphabet, all 4-tuples over 8 lengths)'
                   if tier == 'thorough' else ''),
        'assumptions': ['records are non-empty and not longer than the configured maximum',
                        'a blocked file may end with one all-fill block (C04 allows it)'],
        'bounds': {'single_record_lengths': [1, 6000], 'pairs': len(PAIR_ALPHABET) ** 2,
                   'max_records_in_one_file': 1000},
        'exhaustive': True,
    }


def replay_case(case):
    acc = core.Acc()
    check_case(case, acc)
    return acc


def selfcheck():
    blk_ref.selfcheck()
    vbs_ref.selfcheck()
