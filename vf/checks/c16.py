"""
C16 - Masking never discloses more than the first six and last four digits.
E2: mask() over every length 10..40 x content codings x every printable mask character; PAN / PAN-PREFIX processor
placed on every variable-length element of the packaged and generated configurations x PAN lengths.
"""
import copy
import io

from vf import core, isogen
from vf.ref import iso_ref, vbs_ref

PROPERTY = 'C16'
LEVEL = 'exploration'

PRINTABLE = [chr(c) for c in range(32, 127)]


def check_mask_case(case, acc):
    from cardutil import card
    n, coding, mc = case['len'], case['coding'], case['mask_char']
    if coding == 'lit':
        # a card number that starts with a digit string written in the library's own source
        pan = (case['prefix'] + isogen.digits(n, case.get('seed', 0) + n))[:n]
    elif coding == 'digits':
        pan = isogen.digits(n, case.get('seed', 0) + n)
    elif coding == 'ctrl':
        # digits with one unusual character (line feed, carriage return, NUL, tab, NBSP, line separator ...) at a
        # chosen position
        pan = isogen.digits(n, case.get('seed', 0) + n)
        pan = pan[:case['at']] + case['ch'] + pan[case['at'] + 1:]
    else:
        pan = isogen.text(n, case.get('seed', 0) + n, [c for c in PRINTABLE if c != mc])
    acc.case(('mask', n, coding, mc, case.get('at'), case.get('ch'), case.get('prefix')), nontrivial=True, outcome='mask')
    try:
        out = card.mask(pan) if mc is None else card.mask(pan, mc)
        # the same question with the documented parameter names
        out_kw = card.mask(card_number=pan) if mc is None else card.mask(card_number=pan, mask_char=mc)
        if out_kw != out:
            acc.viol('c16.mask.keyword_call', case, out_kw, out, 'mask(card_number=..., mask_char=...) differs from the '
                     'positional call')
            return
    except Exception as ex:
        acc.viol('c16.mask.exception', case, repr(ex), 'masked string')
        return
    ch = '*' if mc is None else mc
    exp = pan[:6] + ch * (n - 10) + pan[-4:]
    if out != exp:
        why = 'length %d != %d' % (len(out), n) if len(out) != n else \
            'first six / last four / middle mask characters wrong: %r' % out
        acc.viol('c16.mask.shape', case, why, exp)


def pan_cfg(cfgname, bit, proc):
    cfg = copy.deepcopy(isogen.get_cfg(cfgname))
    bc = cfg[str(bit)]
    bc['field_processor'] = proc
    bc.pop('field_processor_config', None)
    bc.pop('field_python_type', None)
    return cfg


def check_decode_case(case, acc):
    """case: cfg, bit, proc, len, enc, neighbours(bool), via ('loads'|'reader')"""
    from cardutil import iso8583, mciipm
    cfg = pan_cfg(case['cfg'], case['bit'], case['proc'])
    base = isogen.get_cfg(case['cfg'])
    enc = case['enc']
    pan = isogen.digits(case['len'], case.get('seed', 0) + case['bit'])
    if case.get('fixed'):
        # the masked element is a FIXED one: a card number shorter than the field arrives with blank filler, and the
        # field value - filler included - is what the masking rule applies to (first six, last four, mask between)
        cfg[str(case['bit'])].update(field_type='FIXED', field_length=case['fixed'])
        pan = pan.ljust(case['fixed'])
    if case.get('lf') is not None:
        pan = pan[:case['lf']] + '\n' + pan[case['lf'] + 1:]
    msg = {'MTI': '1240', 'DE%d' % case['bit']: pan}
    if case['neighbours']:
        bits = isogen.bits_of(case['cfg'])
        i = bits.index(case['bit'])
        for nb in (bits[i - 1] if i > 0 else None, bits[i + 1] if i + 1 < len(bits) else None):
            if nb is None:
                continue
            cls = isogen.field_class(base[str(nb)])
            if cls in ('fixed', 'num', 'var', 'date'):
                kind, param = isogen.default_variant(base[str(nb)])
                msg['DE%d' % nb] = isogen.build_value(base[str(nb)], kind, param, enc, 0, nb)
    acc.case(('dec', case['cfg'], case['bit'], case['proc'], case['len'], enc, case['neighbours'], case['via'],
              case.get('lf'), case.get('hex'), case.get('fixed')),
             nontrivial=True, outcome=case['proc'] + ':' + case['via'])
    try:
        data, _ = iso_ref.encode(msg, cfg, enc, bool(case.get('hex')))
    except iso_ref.RefError as ex:
        raise core.Broken('reference cannot encode %r: %s' % (case, ex))
    # how the configuration reaches the library rotates with the case: a plain dict, or the same content as a
    # read-only proxy / a layered ChainMap / a UserDict (a masking configuration must mask however it is held)
    import collections
    import types
    how = (case['bit'] + case['len']) % 4
    lcfg = cfg if how == 0 else types.MappingProxyType(cfg) if how == 1 else collections.ChainMap({}, cfg) \
        if how == 2 else collections.UserDict(cfg)
    try:
        if case['via'] == 'loads':
            out = iso8583.loads(data, encoding=enc, iso_config=lcfg, hex_bitmap=bool(case.get('hex')))
        else:
            f = io.BytesIO(vbs_ref.frame([data]))
            recs = list(mciipm.IpmReader(f, encoding=enc, iso_config=lcfg))
            if len(recs) != 1:
                acc.viol('c16.decode.records', case, '%d records' % len(recs), '1 record')
                return
            out = recs[0]
    except Exception as ex:
        acc.viol('c16.decode.exception', case, repr(ex), 'dict')
        return
    key = 'DE%d' % case['bit']
    n = len(pan)
    want = (pan[:6] + '*' * (n - 10) + pan[-4:]) if case['proc'] == 'PAN' else pan[:9]
    if out.get(key) != want:
        acc.viol('c16.decode.%s.value' % case['proc'].lower().replace('-', ''), case, repr(out.get(key)), want,
                 'element does not hold the masked value / nine-digit prefix')
        return
    if n >= 11:
        for k, v in out.items():
            if isinstance(v, (bytes, bytearray)):
                hay = [bytes(v).decode('latin_1'), bytes(v).decode(enc, 'replace')]
            else:
                hay = [str(v)]
            if any(pan in h for h in hay) or any(pan.encode(enc).hex() in h for h in hay):
                acc.viol('c16.decode.disclosure', case, 'clear PAN inside %s' % k, 'clear PAN nowhere in the dict')
                return


def check_inplace_case(case, acc):
    """ONE configuration object, edited in place between decodes: none -> PAN -> PAN-PREFIX -> PAN -> none.
    The element must follow the configuration as it is at the time of each call."""
    from cardutil import iso8583
    cfg = copy.deepcopy(isogen.get_cfg(case['cfg']))
    bit, enc = case['bit'], case['enc']
    bc = cfg[str(bit)]
    bc.pop('field_processor', None)
    bc.pop('field_processor_config', None)
    bc.pop('field_python_type', None)
    pan = isogen.digits(case['len'], case.get('seed', 0) + bit)
    data, _ = iso_ref.encode({'MTI': '1240', 'DE%d' % bit: pan}, cfg, enc, False)
    acc.case(('inplace', case['cfg'], bit, case['len'], enc, tuple(case['steps'])), nontrivial=True, outcome='inplace')
    n = len(pan)
    for i, proc in enumerate(case['steps']):
        if proc is None:
            bc.pop('field_processor', None)
            want = pan
        else:
            bc['field_processor'] = proc
            want = (pan[:6] + '*' * (n - 10) + pan[-4:]) if proc == 'PAN' else pan[:9]
        try:
            out = iso8583.loads(data, encoding=enc, iso_config=cfg)
        except Exception as ex:
            acc.viol('c16.inplace.exception', case, repr(ex), 'dict')
            return
        got = out.get('DE%d' % bit)
        if got != want:
            sig = 'c16.inplace.disclosure' if (proc and got == pan) else 'c16.inplace.value'
            acc.viol(sig, case, 'step %d (processor %s): %r' % (i + 1, proc, got), want,
                     'the same configuration object was edited in place between decodes')
            return


def check_rebind_case(case, acc):
    """the package default configuration is REPLACED by a site configuration that masks an element
    (config['bit_config'] = new dict, what applying a loaded configuration does); decoding without iso_config - through
    loads and through the IPM reader - must follow the configuration in force at the time of each call"""
    import io
    from cardutil import iso8583, mciipm, config as libconfig
    from vf.ref import vbs_ref
    original = libconfig.config['bit_config']
    base = copy.deepcopy(isogen.get_cfg('PKG'))
    bit, enc = case['bit'], case['enc']
    base[str(bit)].pop('field_processor', None)
    pan = isogen.digits(case['len'], case.get('seed', 0) + bit)
    data, _ = iso_ref.encode({'MTI': '1240', 'DE%d' % bit: pan, 'DE49': '036'}, base, enc, False)
    n = len(pan)
    acc.case(('rebind', bit, case['len'], enc, tuple(case['steps']), case['via']), nontrivial=True, outcome='rebind')
    try:
        for i, proc in enumerate(case['steps']):
            site = copy.deepcopy(base)
            if proc is None:
                want = pan
            else:
                site[str(bit)]['field_processor'] = proc
                want = (pan[:6] + '*' * (n - 10) + pan[-4:]) if proc == 'PAN' else pan[:9]
            if case.get('how') == 'update':
                libconfig.config.update({'bit_config': site})
            else:
                libconfig.config['bit_config'] = site
            try:
                if case['via'] == 'loads':
                    out = iso8583.loads(data, encoding=enc)
                else:
                    out = list(mciipm.IpmReader(io.BytesIO(vbs_ref.frame([data, data])), encoding=enc))[1]
            except Exception as ex:
                acc.viol('c16.rebind.exception', case, repr(ex), 'dict')
                return
            got = out.get('DE%d' % bit)
            if got != want or (proc and n >= 11 and any(pan in str(v) for v in out.values())):
                sig = 'c16.rebind.disclosure' if (proc and pan in ''.join(str(v) for v in out.values())) \
                    else 'c16.rebind.value'
                acc.viol(sig, case, 'step %d (processor %s): %r' % (i + 1, proc, got), want,
                         'a new configuration object was installed as the package default before the decode')
                return
    finally:
        libconfig.config['bit_config'] = original


def tasks(tier, seed):
    ts = []
    mask_cases = []
    for n in range(10, 41):
        for coding in ('digits', 'text'):
            for mc in [None] + PRINTABLE:
                mask_cases.append({'kind': 'mask', 'len': n, 'coding': coding, 'mask_char': mc, 'seed': seed})
    for n in range(10, 41):
        for ch in ('\n', '\r', '\x00', '\t', '\xa0', '\u2028', '\x85'):
            for at in range(n):
                if ch != '\n' and at not in (0, 5, 6, n - 5, n - 4, n - 1, n // 2):
                    continue
                mask_cases.append({'kind': 'mask', 'len': n, 'coding': 'ctrl', 'mask_char': None, 'seed': seed,
                                   'at': at, 'ch': ch})
    for n in (41, 64, 99, 100, 255, 999, 1000):
        mask_cases.append({'kind': 'mask', 'len': n, 'coding': 'digits', 'mask_char': None, 'seed': seed})
    from vf import literals
    for d in literals.harvest()['digits']:
        for n in (10, 13, 16, 19):
            mask_cases.append({'kind': 'mask', 'len': n, 'coding': 'lit', 'prefix': d, 'mask_char': None, 'seed': seed})
    for ch in core.chunks(mask_cases, 8):
        ts.append({'cases': ch})
    cfgs = ['PKG'] + ['GEN%d' % ((seed + 3 * i) % 14) for i in range(4)] if tier == 'quick' else ['PKG'] + ['GEN%d' % s for s in range(14)]
    dec = []
    for cfgname in cfgs:
        cfg = isogen.get_cfg(cfgname)
        for bit in isogen.bits_of(cfgname):
            pl = iso_ref.prefix_len(cfg[str(bit)])
            if not pl:
                continue
            lens = list(range(10, 20)) + [99] + ([100, 999] if pl == 3 else [])
            for proc in ('PAN', 'PAN-PREFIX'):
                for n in lens:
                    for enc in ('latin_1', 'cp500'):
                        for nb in (False, True):
                            for via in ('loads', 'reader'):
                                if via == 'reader' and (n not in (10, 16, 19, 99) or not nb):
                                    continue
                                dec.append({'kind': 'dec', 'cfg': cfgname, 'bit': bit, 'proc': proc, 'len': n,
                                            'enc': enc, 'neighbours': nb, 'via': via, 'seed': seed})
                                if n in (11, 16, 19) and via == 'loads':
                                    dec.append({'kind': 'dec', 'cfg': cfgname, 'bit': bit, 'proc': proc, 'len': n,
                                                'enc': enc, 'neighbours': nb, 'via': via, 'seed': seed, 'hex': True})
                                if n in (16, 19) and via == 'loads' and not nb:
                                    for lf in (0, 7, n - 1):
                                        dec.append({'kind': 'dec', 'cfg': cfgname, 'bit': bit, 'proc': proc, 'len': n,
                                                    'enc': enc, 'neighbours': nb, 'via': via, 'seed': seed, 'lf': lf})
    pkg = isogen.get_cfg('PKG')
    for bit in [b_ for b_ in isogen.bits_of('PKG') if iso_ref.prefix_len(pkg[str(b_)]) == 2][:4]:
        for width in (12, 16, 19, 24):
            for n in sorted({10, 11, 13, 16, width - 1, width} & set(range(10, width + 1))):
                for proc in ('PAN', 'PAN-PREFIX'):
                    for enc in ('latin_1', 'cp500'):
                        dec.append({'kind': 'dec', 'cfg': 'PKG', 'bit': bit, 'proc': proc, 'len': n, 'enc': enc,
                                    'neighbours': bool(n % 2), 'via': 'loads' if n % 3 else 'reader', 'seed': seed,
                                    'fixed': width})
    for ch in core.chunks(dec, 48):
        ts.append({'cases': ch})
    inplace = []
    orders = [[None, 'PAN', 'PAN-PREFIX', 'PAN', None], ['PAN', None, 'PAN'], ['PAN-PREFIX', 'PAN', None, 'PAN-PREFIX'],
              [None, 'PAN-PREFIX']]
    for cfgname in cfgs:
        cfg = isogen.get_cfg(cfgname)
        for bit in isogen.bits_of(cfgname):
            if not iso_ref.prefix_len(cfg[str(bit)]):
                continue
            for oi, steps in enumerate(orders):
                for n in (16, 19) if oi else (11, 16, 19, 99):
                    inplace.append({'kind': 'inplace', 'cfg': cfgname, 'bit': bit, 'len': n,
                                    'enc': 'cp500' if (bit + oi) % 2 else 'latin_1', 'steps': steps, 'seed': seed})
    for ch in core.chunks(inplace, 16):
        ts.append({'cases': ch})
    rebind = []
    pkg = isogen.get_cfg('PKG')
    for bit in isogen.bits_of('PKG'):
        if iso_ref.prefix_len(pkg[str(bit)]) != 2 or pkg[str(bit)].get('field_processor') or \
                pkg[str(bit)].get('field_python_type'):
            continue
        for oi, steps in enumerate(orders):
            for n in (16, 19) if oi else (11, 16, 19):
                for via in ('loads', 'reader'):
                    rebind.append({'kind': 'rebind', 'bit': bit, 'len': n, 'enc': 'cp500' if (bit + oi) % 2 else
                                   'latin_1', 'steps': steps, 'via': via, 'how': 'update' if oi % 2 else 'assign',
                                   'seed': seed})
    for ch in core.chunks(rebind, 8):
        ts.append({'cases': ch})
    return ts


def run_task(task):
    acc = core.Acc()
    for i, case in enumerate(task['cases']):
        if i == 0:
            acc.sample(case)
        replay_into(case, acc)
    return acc


def replay_into(case, acc):
    if case['kind'] == 'mask':
        check_mask_case(case, acc)
    elif case['kind'] == 'inplace':
        check_inplace_case(case, acc)
    elif case['kind'] == 'rebind':
        check_rebind_case(case, acc)
    else:
        check_decode_case(case, acc)


def describe(tier, seed):
    return {
        'rule': 'mask(): every length 10..40 (+ 41, 64, 99, 100, 255, 999, 1000) x {digits, arbitrary printable text} x '
                '{default, each of the 95 printable mask characters}, plus digits with a line feed at every position and '
                'CR / NUL / TAB / NBSP / U+2028 / U+0085 at the edges of the three parts: same length, first six and last four kept, '
                'every middle position is the mask character. Decoding: every LLVAR/LLLVAR element of the packaged '
                'and %s generated configuration(s) re-configured with PAN and with PAN-PREFIX x PAN lengths 10..19, 99 '
                '(100, 999 on LLLVAR) x {latin_1, cp500} x {alone, with both neighbour elements} through loads (binary and hex bitmap) and '
                'through IpmReader: the element equals the masked value / first nine digits and (length >= 11) the '
                'clear PAN is a substring of no value of the returned dict. In-place sequences: one configuration '
                'object whose processor on an element is edited between decodes (none -> PAN -> PAN-PREFIX -> PAN -> '
                'none and three other orders) - each decode must follow the configuration as it is then. Distinct by the tuple listed; all '
                'non-trivial.' % ('4' if tier == 'quick' else '14'),
        'assumptions': ['for a 10-character PAN the masked value equals the input (nothing lies between the first six '
                        'and the last four), so non-disclosure is judged from 11 characters up',
                        'messages are built by the reference encoder'],
        'bounds': {'mask_lengths': [10, 40], 'pan_lengths': [10, 19, 99, 100, 999]},
        'exhaustive': True,
    }


def replay_case(case):
    acc = core.Acc()
    replay_into(case, acc)
    return acc


def selfcheck():
    iso_ref.selfcheck()
