"""
C15 - Luhn check digits are correct and validation really rejects bad numbers.

Engine E2 (exhaustive enumeration of a finite input space, 2-deviation closure for long numbers) plus an
interpreter-mode axis: the validate half is re-run in a `python -O` subprocess on the same enumeration.
"""
import itertools
import json
import os
import subprocess
import sys

from vf import core
from vf.ref import luhn_ref

PROPERTY = 'C15'
LEVEL = 'exploration'

BACKGROUNDS = ['0', '9', '5', '1234567890', '4000123', '79927398713']
SEPS = ['', '-', ' ']


def describe(tier, seed):
    n = 5 if tier == 'quick' else 7
    m = 5 if tier == 'quick' else 6
    return {
        'rule': 'every digit string of length 0..%d: check digit == reference Luhn; add_check_digit validates; '
                'for lengths 0..%d every single-digit substitution and every adjacent transposition (digits '
                'different, not the 0/9 pair) of the valid number must be rejected. Lengths 8..40: every position x '
                'every digit on %d backgrounds (and every pair of positions on one background), with and without '
                'separators. The whole validate half is repeated in a python -O subprocess. A case is distinct by '
                'its digit string (+ separator layout + interpreter mode); non-trivial = at least one digit.'
                % (n, m, len(BACKGROUNDS)),
        'assumptions': ['"rejects" = the call does not return normally (any exception) or returns False; '
                        'the documented behaviour is AssertionError',
                        'numbers are judged on their digits; separators are the ones calculate_check_digit ignores'],
        'bounds': {'exhaustive_length_check_digit': n, 'exhaustive_length_edits': m, 'long_lengths': [8, 40]},
        'exhaustive': True,
    }


def _accepted(validate, s):
    try:
        r = validate(s)
    except Exception:
        return False
    return r is not False


def _edits(valid):
    """all single-digit substitutions and admissible adjacent transpositions of a digit string"""
    out = []
    for i, ch in enumerate(valid):
        if not ch.isdigit():
            continue
        for d in '0123456789':
            if d != ch:
                out.append(('sub', i, valid[:i] + d + valid[i + 1:]))
    digs = [i for i, ch in enumerate(valid) if ch.isdigit()]
    for a, b in zip(digs, digs[1:]):
        x, y = valid[a], valid[b]
        if x != y and {x, y} != {'0', '9'}:
            sw = list(valid)
            sw[a], sw[b] = y, x
            out.append(('swap', a, ''.join(sw)))
    return out


def check_case(case, acc, mode='normal'):
    """case: {'s': digit string (payload, may contain separators), 'edits': bool}"""
    from cardutil import card
    if case.get('vlong'):
        L, k = case['vlong'], case['pattern']
        sd = case.get('seed', 0)
        case = dict(case, s=''.join('0123456789'[(i * (3 + 4 * k) + (i // 7) * k + sd + k) % 10] for i in range(L)),
                    edits='thin')
    s = case['s']
    digits = [int(c) for c in s if c.isdigit()]
    exp = str(luhn_ref.check_digit(digits))
    key = (s, mode, case.get('edits', True))
    acc.case(key, nontrivial=len(digits) > 0)
    try:
        got = card.calculate_check_digit(s)
    except Exception as ex:
        acc.viol('c15.check_digit.exception', case, repr(ex), exp, 'calculate_check_digit raised')
        return
    if got != exp:
        acc.viol('c15.check_digit.value', case, got, exp, 'check digit differs from reference Luhn')
        return
    # the documented parameter name, passed by keyword (the same questions in the other calling convention)
    try:
        got = card.calculate_check_digit(card_number=s)
        full = card.add_check_digit(card_number=s)
        ok = _accepted(lambda x: card.validate_check_digit(card_number=x), full)
        bad_ok = full and _accepted(lambda x: card.validate_check_digit(card_number=x),
                                    full[:-1] + str((int(full[-1]) + 1) % 10))
    except Exception as ex:
        acc.viol('c15.keyword_call.exception', case, repr(ex), exp, 'called with card_number=<number>')
        return
    if got != exp or full != s + exp or not ok or bad_ok:
        acc.viol('c15.keyword_call.value', case, 'check digit %s, with check digit %s, validates %s, wrong check '
                 'digit validates %s' % (got, full, ok, bool(bad_ok)), 'check digit %s, %s, True, False' % (exp, s + exp),
                 'the same functions called with card_number=<number> instead of positionally')
        return
    try:
        full = card.add_check_digit(s)
    except Exception as ex:
        acc.viol('c15.add.exception', case, repr(ex), s + exp, 'add_check_digit raised')
        return
    if full != s + exp:
        acc.viol('c15.add.value', case, full, s + exp, 'add_check_digit is not input + check digit')
        return
    if not _accepted(card.validate_check_digit, full):
        acc.viol('c15.validate.rejects_valid.' + mode, case, 'rejected', 'accepted',
                 'validate_check_digit(add_check_digit(x)) failed')
    if case.get('edits', True) == 'thin':
        # very long numbers: edits at the ends, in the middle and around every multiple of 1000 / power of two / the
        # interpreter's 4300-digit limit for int<->str conversion
        L = len(full)
        marks = {0, 1, 2, L // 2, L - 3, L - 2, L - 1, 4299, 4300, 4301}
        for bb in list(range(1000, L, 1000 if L <= 20003 else 16000)) + [1 << k for k in range(6, 18)]:
            marks.update((bb - 1, bb, bb + 1))
        for i in sorted(m for m in marks if 0 <= m < L):
            for d in (str((int(full[i]) + 1) % 10), str((int(full[i]) + 5) % 10)):
                acc.evaluations += 1
                bad = full[:i] + d + full[i + 1:]
                if _accepted(card.validate_check_digit, bad):
                    acc.viol('c15.validate.accepts_invalid.sub.long', dict(case, s=None, length=L, pos=i, digit=d),
                             'accepted a %d-digit number with digit %d changed' % (L, i), 'rejected')
                    return
            if i + 1 < L and full[i] != full[i + 1] and {full[i], full[i + 1]} != {'0', '9'}:
                acc.evaluations += 1
                bad = full[:i] + full[i + 1] + full[i] + full[i + 2:]
                if _accepted(card.validate_check_digit, bad):
                    acc.viol('c15.validate.accepts_invalid.swap.long', dict(case, s=None, length=L, pos=i),
                             'accepted a %d-digit number with digits %d,%d swapped' % (L, i, i + 1), 'rejected')
                    return
    elif case.get('edits', True):
        for kind, pos, bad in _edits(full):
            acc.evaluations += 1
            if _accepted(card.validate_check_digit, bad):
                acc.viol('c15.validate.accepts_invalid.%s.%s' % (kind, mode), dict(case, bad=bad, pos=pos),
                         'accepted ' + bad, 'rejected', 'a %s edit of a valid number validates' % kind)


def _long_cases(seed):
    """lengths 8..40: every position x every digit on several backgrounds; every pair of positions x 3x3 digits on
    one background; with separators."""
    cases = []
    for L in range(8, 41):
        for bi, bg in enumerate(BACKGROUNDS):
            base = (bg * 41)[(seed % len(bg)):][:L]
            for sep in SEPS:
                def fmt(ds):
                    if not sep:
                        return ds
                    return sep.join(ds[i:i + 4] for i in range(0, len(ds), 4))
                cases.append({'s': fmt(base), 'edits': True})
                if bi < 4:
                    for i in range(L):
                        for d in '0123456789':
                            if d != base[i]:
                                cases.append({'s': fmt(base[:i] + d + base[i + 1:]), 'edits': sep == ''})
        # 2 deviations on the all-zero background
        base = '0' * L
        for i, j in itertools.combinations(range(L), 2):
            for d1 in '159':
                for d2 in '459':
                    ds = base[:i] + d1 + base[i + 1:j] + d2 + base[j + 1:]
                    cases.append({'s': ds, 'edits': False})
    return cases


def tasks(tier, seed):
    n = 5 if tier == 'quick' else 7
    m = 5 if tier == 'quick' else 6
    ts = []
    # exhaustive short strings, split by first two digits for parallelism
    for L in range(0, n + 1):
        if L < 3:
            ts.append({'kind': 'short', 'len': L, 'prefix': '', 'edits': L <= m})
        else:
            for p in range(100):
                ts.append({'kind': 'short', 'len': L, 'prefix': '%02d' % p, 'edits': L <= m})
    long_cases = _long_cases(seed)
    for chunk in core.spread(long_cases, 64):
        ts.append({'kind': 'list', 'cases': chunk})
    # very long numbers ("every digit string"): lengths around 100, 256, 1000, the 4300-digit int limit, 8000, 8192,
    # 10000 ... 100001, three digit patterns each
    vl = []
    for L in (41, 63, 64, 65, 99, 100, 101, 255, 256, 257, 999, 1000, 1001, 4095, 4096, 4097, 4299, 4300, 4301, 7999,
              8000, 8001, 8002, 8191, 8192, 8193, 9999, 10000, 10001, 16001, 16002, 20003, 32769, 65537, 100001):
        for k in range(3):
            vl.append({'vlong': L, 'pattern': k, 'seed': seed})
    for chunk in core.spread(vl, 32):
        ts.append({'kind': 'list', 'cases': chunk})
    # numbers that START WITH a digit string written in the library's own source (a rule keyed on an issuer prefix, a
    # special length, ... can only be reached by a number that carries the value; the value is in the code), at
    # every length 8..19, with every single-digit change and adjacent swap
    from vf import literals
    lit = []
    for d in literals.harvest()['digits']:
        for L in range(max(8, len(d) + 1), 20):
            pay = (d + ''.join('0123456789'[(i * 7 + seed + len(d)) % 10] for i in range(L)))[:L - 1]
            lit.append({'s': pay, 'edits': True})
    for chunk in core.spread(lit, 32):
        ts.append({'kind': 'list', 'cases': chunk})
    for part in range(16):
        ts.append({'kind': 'optimised', 'len': 4 if tier == 'quick' else 5, 'seed': seed, 'part': part, 'of': 16})
    return ts


def _short_iter(L, prefix):
    rest = L - len(prefix)
    for tup in itertools.product('0123456789', repeat=rest):
        yield prefix + ''.join(tup)


def run_task(task):
    acc = core.Acc()
    if task['kind'] == 'short':
        first = True
        for s in _short_iter(task['len'], task['prefix']):
            case = {'s': s, 'edits': task['edits']}
            if first:
                acc.sample(case)
                first = False
            check_case(case, acc)
    elif task['kind'] == 'list':
        acc.sample(task['cases'][0])
        for case in task['cases']:
            check_case(case, acc)
    elif task['kind'] == 'optimised':
        _run_optimised(task, acc)
    return acc


def _run_optimised(task, acc):
    """Re-run the validate half under python -O in a subprocess (asserts are stripped there)."""
    env = dict(os.environ)
    cmd = [sys.executable, '-O', '-m', 'vf.checks.c15', 'sub', str(task['len']), str(task['seed']),
           str(task['part']), str(task['of'])]
    p = subprocess.run(cmd, env=env, capture_output=True, text=True, cwd=core.VERIF, timeout=1200)
    if p.returncode != 0:
        raise core.Broken('python -O subprocess failed: ' + p.stderr[-2000:])
    res = json.loads(p.stdout.strip().splitlines()[-1])
    if not res.get('optimised'):
        raise core.Broken('subprocess did not run in optimised mode')
    acc.evaluations += res['evaluations']
    for k in res['keys']:
        acc.keys.add(k)
    acc.count('optimised_mode_validate_calls', res['evaluations'])
    for sig, (n, dets) in res['violations'].items():
        acc.violations[sig] = [n, dets]
    acc.sample({'mode': 'python -O', 'validate_calls': res['evaluations'], 'first': res.get('first')})


def _sub_main(L, seed, part, of):
    """Executed under python -O: the same enumeration (short strings 0..L, every 7th long case), static slice."""
    core.quiet_library()
    acc = core.Acc()
    optimised = not __debug__
    first = None
    idx = 0
    for n in range(0, L + 1):
        for s in _short_iter(n, ''):
            idx += 1
            if idx % of != part:
                continue
            case = {'s': s, 'edits': True, 'mode': 'optimised'}
            if first is None and n == L:
                first = case
            check_case(case, acc, mode='optimised')
    for i, case in enumerate(_long_cases(seed)):
        if i % 7 == 0 and (i // 7) % of == part:
            check_case(dict(case, mode='optimised'), acc, mode='optimised')
    print(json.dumps({'optimised': optimised, 'evaluations': acc.evaluations, 'keys': sorted(acc.keys),
                      'violations': acc.violations, 'first': first}))


def replay_case(case):
    acc = core.Acc()
    if case.get('mode') == 'optimised':
        code = ('import json,sys\nfrom vf.checks import c15\nfrom vf import core\nacc=core.Acc()\n'
                'c15.check_case(json.loads(sys.argv[1]), acc, mode="optimised")\n'
                'print(json.dumps(acc.violations))')
        p = subprocess.run([sys.executable, '-O', '-c', code, json.dumps({k: v for k, v in case.items()
                                                                            if k in ('s', 'edits', 'mode')})],
                           capture_output=True, text=True, cwd=core.VERIF, timeout=600)
        if p.returncode != 0:
            raise core.Broken('python -O replay failed: ' + p.stderr[-2000:])
        for sig, (n, dets) in json.loads(p.stdout.strip().splitlines()[-1]).items():
            acc.violations[sig] = [n, dets]
        return acc
    check_case({k: v for k, v in case.items() if k in ('s', 'edits', 'vlong', 'pattern', 'seed') and v is not None}, acc)
    return acc


def selfcheck():
    # reference sanity: published examples
    if luhn_ref.check_digit([7, 9, 9, 2, 7, 3, 9, 8, 7, 1]) != 3:
        raise core.Broken('luhn_ref fails the 79927398713 example')
    if not luhn_ref.is_valid([int(c) for c in '4111111111111111']):
        raise core.Broken('luhn_ref rejects 4111111111111111')
    if luhn_ref.is_valid([int(c) for c in '4111111111111112']):
        raise core.Broken('luhn_ref accepts 4111111111111112')


if __name__ == '__main__':
    if len(sys.argv) >= 6 and sys.argv[1] == 'sub':
        _sub_main(int(sys.argv[2]), int(sys.argv[3]), int(sys.argv[4]), int(sys.argv[5]))
