"""
C13 - PIN blocks follow ISO 9564 formats 0 and 4 and return the PIN, for 4-12 digits.
E2: PIN length x PAN length crossed fully, digit backgrounds, 1- and 2-position digit deviations, supplied and
unsupplied random fills, TDES / AES keys; clear blocks vs an independent construction, ciphertexts vs from-scratch
DES / AES references.
"""
import itertools
import secrets

from vf import core
from vf.ref import aes_ref, des_ref, pin_ref

PROPERTY = 'C13'
LEVEL = 'exploration'

TDES_KEYS = ['0123456789ABCDEFFEDCBA9876543210', '00' * 16, 'FF' * 16, '0123456789ABCDEF0123456789ABCDEF',
             '0123456789ABCDEFFEDCBA987654321089ABCDEF01234567', '1' * 48]
AES_KEYS = ['00' * 16, 'FF' * 16, '000102030405060708090a0b0c0d0e0f', '000102030405060708090a0b0c0d0e0f1011121314151617',
            '000102030405060708090a0b0c0d0e0f101112131415161718191a1b1c1d1e1f', 'ff' * 32]
FILLS = [1, 2, 0x0123456789ABCDEF, 1 << 63, (1 << 64) - 1, None]
BACKGROUNDS = ['0', '9', '1234567890', 'seed']


def digits(n, bg, seed, salt):
    if bg == 'seed':
        return ''.join('0123456789'[(i * 7 + seed + salt) % 10] for i in range(n))
    return (bg * 20)[:n]


def make(case):
    pin = digits(case['pinlen'], case['bg'], case['seed'], 3)
    pan = digits(case['panlen'], case['bg'] if case['bg'] != '0' else '4', case['seed'], 5)
    # a card number / PIN that STARTS WITH a digit string written in the library's own source
    if case.get('pan_prefix'):
        pan = (case['pan_prefix'] + pan)[:len(pan)]
    if case.get('pin_prefix'):
        pin = (case['pin_prefix'] + pin)[:len(pin)]
    for where, pos, d in case.get('dev', []):
        if where == 'pin':
            pin = pin[:pos] + str(d) + pin[pos + 1:]
        else:
            pan = pan[:pos] + str(d) + pan[pos + 1:]
    return pin, pan


class RandStub(object):
    def __init__(self):
        self.calls = []
        self.n = 0x1000000000000001

    def __call__(self, k):
        self.calls.append(k)
        self.n += 0x0101010101010101
        return self.n & ((1 << k) - 1)


def check_case(case, acc):
    from cardutil import pinblock
    if case.get('raw'):
        return check_raw_cipher(case, acc)
    if case.get('alphabet'):
        return check_textlike(case, acc)
    pin, pan = make(case)
    fmt = case['fmt']
    key = case.get('key')
    fill = case.get('fill')
    acc.case((fmt, case['pinlen'], case['panlen'], case['bg'], repr(case.get('dev')), key, fill, case.get('cls'),
              case.get('after_failed_call'), case.get('pan_prefix'), case.get('pin_prefix')),
             nontrivial=True, outcome='%s/pin%d' % (fmt, len(pin)))
    stub = RandStub()
    real = secrets.randbits
    secrets.randbits = stub
    try:
        try:
            _run(case, acc, pinblock, pin, pan, fmt, key, fill, stub)
        except Exception as ex:
            acc.viol('c13.%s.exception' % fmt, case, repr(ex), 'PIN block operations succeed for a %d-digit PIN'
                     % len(pin), 'pin length %d' % len(pin))
    finally:
        secrets.randbits = real


def _poison(pinblock, key):
    """calls that are expected to FAIL (data that is not a whole cipher block); what they leave behind must not
    change any later valid call"""
    for cls in (pinblock.Iso0TDESPinBlockWithVisaPVV, pinblock.Iso4AESPinBlockWithVisaPVV):
        for data in (b'\x01' * 7, b'\x02' * 15, b'\x03' * 9):
            for fn in ('decrypt', 'encrypt'):
                try:
                    getattr(cls, fn)(key, data)
                except Exception:
                    pass
            try:
                cls.from_enc_bytes(enc_pin_block=data, card_number='4000001234562', key=key)
            except Exception:
                pass


def _still_same(case, acc, pb, fmt, want, pin, pan):
    """the same object after other questions were put to it (PVV for this and for ANOTHER card number, its PIN, its
    text forms, its bytes again): the block it gives must still be the block of the PIN and card number it was built
    from. -> True if a violation was recorded"""
    other = ('9' if pan[:1] != '9' else '8') + pan[1:-3][::-1] + '123'
    for q in (lambda: pb.to_pvv(pvv_key='0123456789ABCDEFFEDCBA9876543210', key_index=2, card_number=pan),
              lambda: pb.pin, lambda: str(pb), lambda: repr(pb), lambda: pb.to_bytes(),
              lambda: pb.to_pvv('0123456789ABCDEFFEDCBA9876543210', 1, card_number=other)):
        try:
            q()
        except Exception:
            pass
    try:
        again = pb.to_bytes()
        pin_now = pb.pin
    except Exception as ex:
        acc.viol('c13.%s.after_queries' % fmt, case, repr(ex), want.hex(),
                 'the block of the same object after it was asked for a PVV / its PIN / its text form')
        return True
    if again != want or pin_now != pin:
        acc.viol('c13.%s.after_queries' % fmt, case, '%s pin %s' % (again.hex(), pin_now), '%s pin %s' % (want.hex(), pin),
                 'the block of the same object after it was asked for a PVV (also for another card number), its PIN '
                 'and its text form')
        return True
    return False


def _run(case, acc, pinblock, pin, pan, fmt, key, fill, stub):
    if case.get('after_failed_call') and key:
        _poison(pinblock, key)
    if fmt == 'iso0':
        cls = pinblock.Iso0PinBlock
        if key:
            cls = pinblock.Iso0TDESPinBlockWithVisaPVV if case.get('cls') != 'custom' else \
                type('P', (pinblock.Iso0PinBlock, pinblock.TdesEncryptedPinBlockMixin), {})
        pb = cls(pin=pin, card_number=pan) if len(pin) % 2 else cls(pin, pan)     # keyword / positional by turns
        want = pin_ref.iso0_clear(pin, pan)
        got = pb.to_bytes()
        if got != want:
            acc.viol('c13.iso0.clear', case, got.hex(), want.hex(), 'format-0 clear block, PIN length %d' % len(pin))
            return
        back = (cls.from_bytes(got, card_number=pan) if len(pan) % 2 else cls.from_bytes(got, pan)).pin
        if back != pin:
            acc.viol('c13.iso0.from_bytes', case, back, pin, 'PIN rebuilt from the block bytes')
            return
        if key:
            ct = pb.to_enc_bytes(key=key)
            want_ct = des_ref.tdes_ecb_encrypt(bytes.fromhex(key), want)
            if ct != want_ct:
                acc.viol('c13.iso0.encrypt', case, ct.hex(), want_ct.hex(), '3DES-ECB of the clear block')
                return
            back = cls.from_enc_bytes(enc_pin_block=want_ct, card_number=pan, key=key).pin
            if back != pin:
                acc.viol('c13.iso0.decrypt', case, back, pin, 'PIN from the encrypted block')
                return
        if _still_same(case, acc, pb, 'iso0', want, pin, pan):
            return
        if key and pb.to_enc_bytes(key=key) != des_ref.tdes_ecb_encrypt(bytes.fromhex(key), want):
            acc.viol('c13.iso0.after_queries', case, 'encrypted block changed', 'unchanged')
        return
    # format 4
    cls = pinblock.Iso4PinBlock
    if key:
        if len(bytes.fromhex(key)) in (16, 24, 32) and case.get('cls') != 'tdes':
            cls = pinblock.Iso4AESPinBlockWithVisaPVV
            ref_enc = aes_ref.ecb_encrypt
        else:
            cls = type('P', (pinblock.Iso4PinBlock, pinblock.TdesEncryptedPinBlockMixin), {})
            ref_enc = des_ref.tdes_ecb_encrypt
    if fill is None:
        pb = cls(pin=pin)
        pb2 = cls(pin=pin)
        b1, b2 = pb.to_bytes(), pb2.to_bytes()
        if len(b1) != 16 or len(b2) != 16:
            acc.viol('c13.iso4.clear', case, b1.hex(), '16 bytes', 'format-4 block length')
            return
        f1, f2 = int.from_bytes(b1[8:], 'big'), int.from_bytes(b2[8:], 'big')
        if stub.calls:
            if stub.calls[:2] != [64, 64] or len(stub.calls) != 2:
                acc.viol('c13.iso4.random.draws', case, repr(stub.calls), '[64, 64]',
                         'one 64-bit draw per new block')
                return
        if f1 == f2:
            acc.viol('c13.iso4.random.fresh', case, '%016x twice' % f1, 'a fresh random fill per block')
            return
        use_fill = f1
        got = b1
    else:
        pb = cls(pin=pin, random_value=fill)
        got = pb.to_bytes()
        use_fill = fill
        if stub.calls:
            acc.viol('c13.iso4.random.supplied_ignored', case, 'random drawn %r' % stub.calls, 'supplied fill used')
            return
    want = pin_ref.iso4_clear(pin, use_fill)
    if got != want:
        acc.viol('c13.iso4.clear', case, got.hex(), want.hex(), 'format-4 clear block, PIN length %d' % len(pin))
        return
    back = cls.from_bytes(got).pin
    if back != pin:
        acc.viol('c13.iso4.from_bytes', case, back, pin, 'PIN rebuilt from the block bytes')
        return
    if key:
        ct = pb.to_enc_bytes(key=key)
        want_ct = ref_enc(bytes.fromhex(key), want)
        if ct != want_ct:
            acc.viol('c13.iso4.encrypt', case, ct.hex(), want_ct.hex(), 'ECB encryption of the clear block')
            return
        back = cls.from_enc_bytes(enc_pin_block=want_ct, key=key).pin
        if back != pin:
            acc.viol('c13.iso4.decrypt', case, back, pin, 'PIN from the encrypted block')
            return
    _still_same(case, acc, pb, 'iso4', want, pin, pan)


CT_PATTERNS = ['0000000000000000', 'd86e17c0404d4700', '00112233445566', 'ffffffffffffffff', '2020202020202020',
               '0a0a0a0a0a0a0a0a', '11223344556677', '0011223344556600', '1122334455660a', '11223344556620',
               '1122334455667700', '0d0a0d0a0d0a0d0a', '4040404040404040', '7f00000000000000']


def check_raw_cipher(case, acc):
    """the mix-ins' encrypt / decrypt on blocks chosen (by decrypting with the reference cipher) so that the
    CIPHERTEXT has a given shape: trailing / leading zero bytes, whitespace bytes, all equal bytes"""
    from cardutil import pinblock
    key = case['key']
    kb = bytes.fromhex(key)
    aes = case['alg'] == 'aes'
    n = 16 if aes else 8
    ct = bytes.fromhex((case['ct'] + '00' * 16)[:2 * n]) if len(case['ct']) < 2 * n else bytes.fromhex(case['ct'])[:n]
    if case.get('tail'):
        ct = ct[:n - 1] + bytes([case['tail']])
    clear = aes_ref.ecb_decrypt(kb, ct) if aes else des_ref.tdes_ecb_decrypt(kb, ct)
    mix = pinblock.AESEncryptedPinBlockMixin if aes else pinblock.TdesEncryptedPinBlockMixin
    acc.case(('raw', case['alg'], key, ct.hex()), nontrivial=True, outcome='raw_cipher')
    try:
        got = mix.encrypt(key, clear)
        back = mix.decrypt(key, ct)
    except Exception as ex:
        acc.viol('c13.cipher.exception', case, repr(ex), 'ciphertext ' + ct.hex())
        return
    if got != ct:
        acc.viol('c13.cipher.encrypt', case, bytes(got).hex(), ct.hex(), 'ECB encryption of a block whose ciphertext is '
                 + ct.hex())
    elif back != clear:
        acc.viol('c13.cipher.decrypt', case, bytes(back).hex(), clear.hex(), 'ECB decryption of ' + ct.hex())


TEXT_ALPHABETS = {'hex': b'0123456789abcdefABCDEF', 'digits': b'0123456789', 'upper': b'ABCDEFGHIJKLMNOPQRSTUVWXYZ',
                  'blank_digit': b' 0123456789', 'base64': b'ABCDEFabcdef0123456789+/='}


def textlike_vector(key_hex, alphabet, k, seed):
    """the k-th format-0 vector whose 3DES CIPHERTEXT consists only of characters of a text alphabet (hex digits,
    decimal digits, capitals ...): ciphertexts are enumerated in a fixed order, decrypted with the reference cipher,
    and a PIN / card number pair is derived for every clear block that can be a format-0 block (the card number's
    digits are chosen so that the XOR leaves PIN digits and F fill). -> (pin, pan, ciphertext) or None"""
    kb = bytes.fromhex(key_hex)
    al = TEXT_ALPHABETS[alphabet]
    found = 0
    for t in range(20000):
        x = (t * 2654435761 + seed * 40503 + 12345) & 0xffffffffffffffff
        ct = bytes(al[(x >> (8 * i)) % len(al)] for i in range(8))
        clear = des_ref.tdes_ecb_decrypt(kb, ct)
        nib = [b >> 4 if i % 2 == 0 else b & 15 for b in clear for i in (0, 1)]
        if nib[0] != 0 or not 4 <= nib[1] <= 12 or nib[2] > 9 or nib[3] > 9:
            continue
        L = nib[1]
        pin, pan12, ok = [nib[2], nib[3]], [], True
        for i in range(4, 16):
            c = nib[i]
            if i < 2 + L:
                d = next((d for d in range(10) if (c ^ d) <= 9), None)
                if d is None:
                    ok = False
                    break
                pin.append(c ^ d)
            else:
                d = c ^ 0xF
                if d > 9:
                    ok = False
                    break
            pan12.append(d)
        if not ok:
            continue
        pin_s = ''.join(map(str, pin))
        pan_s = '5413' + ''.join(map(str, pan12)) + '7'
        if pin_ref.iso0_clear(pin_s, pan_s) != clear:
            continue
        if found == k:
            return pin_s, pan_s, ct
        found += 1
    return None


def check_textlike(case, acc):
    from cardutil import pinblock
    v = textlike_vector(case['key'], case['alphabet'], case['k'], case.get('seed', 0))
    acc.case(('textlike', case['key'], case['alphabet'], case['k']), nontrivial=v is not None,
             outcome='ciphertext looks like text' if v else 'no vector within the search bound')
    if v is None:
        return
    pin, pan, ct = v
    cls = pinblock.Iso0TDESPinBlockWithVisaPVV
    try:
        got = cls(pin=pin, card_number=pan).to_enc_bytes(key=case['key'])
        back = cls.from_enc_bytes(enc_pin_block=ct, card_number=pan, key=case['key']).pin
        back2 = cls.from_enc_bytes(ct, case['key'], card_number=pan).pin
    except Exception as ex:
        acc.viol('c13.textlike.exception', case, repr(ex), 'PIN %s' % pin,
                 'the encrypted block %r (all %s characters) belongs to PIN %s, card %s' % (ct, case['alphabet'], pin, pan))
        return
    if got != ct or back != pin or back2 != pin:
        acc.viol('c13.textlike.value', case, 'encrypted %s, decrypted PIN %s / %s' % (bytes(got).hex(), back, back2),
                 'encrypted %s, PIN %s' % (ct.hex(), pin), 'an encrypted block whose bytes all are %s characters'
                 % case['alphabet'])


def enumerate_cases(tier, seed):
    cases = []
    for pl in range(4, 13):
        for nl in range(13, 20):
            for bg in BACKGROUNDS:
                base = {'pinlen': pl, 'panlen': nl, 'bg': bg, 'seed': seed}
                cases.append(dict(base, fmt='iso0'))
                for fill in FILLS:
                    cases.append(dict(base, fmt='iso4', fill=fill))
                # encrypted forms
                for ki, key in enumerate(TDES_KEYS):
                    if bg in ('seed', '9') or ki == 0:
                        cases.append(dict(base, fmt='iso0', key=key))
                cases.append(dict(base, fmt='iso0', key=TDES_KEYS[0], cls='custom'))
                for ki, key in enumerate(AES_KEYS):
                    if bg in ('seed', '9') or ki == 2:
                        cases.append(dict(base, fmt='iso4', key=key, fill=FILLS[(pl + nl + ki) % 5]))
                cases.append(dict(base, fmt='iso4', key=TDES_KEYS[0], cls='tdes', fill=7))
                if bg == 'seed':
                    cases.append(dict(base, fmt='iso0', key=TDES_KEYS[(pl + nl) % len(TDES_KEYS)],
                                      after_failed_call=True))
                    cases.append(dict(base, fmt='iso4', key=AES_KEYS[(pl + nl) % len(AES_KEYS)], fill=9,
                                      after_failed_call=True))
                cases.append(dict(base, fmt='iso4', key=TDES_KEYS[4], cls='tdes', fill=None))
            # 1-position deviations on one background: every position x every digit
            base = {'pinlen': pl, 'panlen': nl, 'bg': '1234567890', 'seed': seed}
            for where, ln in (('pin', pl), ('pan', nl)):
                for pos in range(ln):
                    for d in range(10):
                        dev = [[where, pos, d]]
                        cases.append(dict(base, fmt='iso0', dev=dev))
                        if where == 'pin':
                            cases.append(dict(base, fmt='iso4', dev=dev, fill=0xA5A5A5A5A5A5A5A5))
                        if d in (0, 9) and (tier == 'thorough' or pos in (0, ln - 1, ln - 2)):
                            cases.append(dict(base, fmt='iso0', dev=dev, key=TDES_KEYS[0]))
    # 2-position deviations on selected shapes
    shapes = [(4, 16), (12, 19), (6, 13)] if tier == 'quick' else [(p, n) for p in (4, 6, 9, 10, 12) for n in (13, 16, 19)]
    for pl, nl in shapes:
        base = {'pinlen': pl, 'panlen': nl, 'bg': '0', 'seed': seed}
        slots = [('pin', i) for i in range(pl)] + [('pan', i) for i in range(nl)]
        for (w1, p1), (w2, p2) in itertools.combinations(slots, 2):
            for d1 in (1, 5, 9):
                for d2 in (3, 7, 9):
                    cases.append(dict(base, fmt='iso0', dev=[[w1, p1, d1], [w2, p2, d2]]))
    from vf import literals
    for d in literals.harvest()['digits']:
        for nl in (13, 16, 19):
            base = {'pinlen': 4 + len(d) % 9, 'panlen': nl, 'bg': 'seed', 'seed': seed, 'pan_prefix': d[:nl - 1]}
            cases.append(dict(base, fmt='iso0', key=TDES_KEYS[0]))
            cases.append(dict(base, fmt='iso0'))
        for pl in (4, 6, 12):
            if len(d) <= pl:
                base = {'pinlen': pl, 'panlen': 16, 'bg': 'seed', 'seed': seed, 'pin_prefix': d}
                cases.append(dict(base, fmt='iso0', key=TDES_KEYS[0]))
                cases.append(dict(base, fmt='iso4', key=AES_KEYS[2], fill=5))
    for pat in CT_PATTERNS:
        for key in TDES_KEYS:
            cases.append({'raw': True, 'alg': 'tdes', 'key': key, 'ct': pat})
        for key in AES_KEYS:
            cases.append({'raw': True, 'alg': 'aes', 'key': key, 'ct': pat})
    # encrypted blocks that look like TEXT (hex digits, decimal digits, capitals ...): bytes are bytes
    for al in sorted(TEXT_ALPHABETS):
        for key in TDES_KEYS[:2]:
            for k in range(3 if tier == 'quick' else 8):
                cases.append({'alphabet': al, 'key': key, 'k': k, 'seed': seed})
    for tail in range(256):          # every value of the last ciphertext byte
        cases.append({'raw': True, 'alg': 'tdes', 'key': TDES_KEYS[0], 'ct': '1122334455667788', 'tail': tail})
        cases.append({'raw': True, 'alg': 'aes', 'key': AES_KEYS[2], 'ct': '11223344556677889900aabbccddeeff',
                      'tail': tail})
    return cases


def tasks(tier, seed):
    cs = enumerate_cases(tier, seed)
    slow = [c for c in cs if c.get('alphabet')]          # each needs a vector search: one task each
    cs = [c for c in cs if not c.get('alphabet')]
    return [{'cases': ch} for ch in core.chunks(cs, 64)] + [{'cases': [c]} for c in slow]


def fresh_fills(n=3):
    """the random fills of n new format-4 blocks, with the real random source (no stub)"""
    from cardutil import pinblock
    return [int.from_bytes(pinblock.Iso4PinBlock(pin='1234').to_bytes()[8:], 'big') for _ in range(n)]


def finalize_acc(acc):
    """freshness ACROSS processes: every task draws three fills with the real random source; the tasks run in worker
    processes forked after the library was imported (as a pre-forking server does), so a generator seeded at import
    and inherited by every child shows as the same fills in sibling processes"""
    fills = acc.bag.get('fresh_fills', [])
    if len(fills) != len(set(fills)):
        seen, dup = set(), None
        for f in fills:
            if f in seen:
                dup = f
                break
            seen.add(f)
        acc.viol('c13.iso4.random.repeats_across_processes', {'fork_fresh': True},
                 'fill %016x drawn more than once among %d fills drawn in %d tasks' % (dup, len(fills), len(fills) // 3),
                 'every new block carries fresh random bits', 'the same random fills appear in sibling worker processes')
    acc.count('fresh_fills_compared_across_processes', len(fills))


def run_task(task):
    acc = core.Acc()
    try:
        acc.bag['fresh_fills'] = fresh_fills()
    except Exception:
        pass
    for i, case in enumerate(task['cases']):
        if i == 0:
            acc.sample(case)
        check_case(case, acc)
    return acc


def describe(tier, seed):
    return {
        'rule': 'PIN length 4..12 x PAN length 13..19 crossed fully x 4 digit backgrounds; format 0 clear block, format 4 '
                'with fills {1, 2, 0x0123456789ABCDEF, 2^63, 2^64-1, none supplied}; encrypted forms under %d TDES '
                '(double and triple length) and %d AES (128/192/256) keys incl. all-zero / all-FF, also format 4 under '
                'TDES via a custom mix-in class; every PIN and PAN position x every digit on one background (1 '
                'deviation), every pair of positions x 3x3 digits on %s shapes (2 deviations). Oracle: independent '
                'construction (pin_ref) for clear blocks, from_bytes returns the PIN, from-scratch FIPS 46-3 / FIPS 197 '
                'references for ciphertexts, from_enc_bytes returns the PIN; secrets.randbits is replaced by a counter: '
                'one 64-bit draw per new block when no fill is supplied, none when supplied, two blocks get different '
                'fills. Some encrypted cases are preceded by calls that must fail (data that is not a whole cipher block): '
                'what those leave behind must not change the valid call. The cipher mix-ins are also run on blocks chosen '
                '(by decrypting with the reference cipher) so that the ciphertext ends or begins with 0x00 / 0x20 / '
                '0x0a / 0x40, is all equal bytes, and has every value 0..255 as its last byte.' % (len(TDES_KEYS), len(AES_KEYS), '3' if tier == 'quick' else '15'),
        'assumptions': ['PIN and PAN are decimal digit strings', 'a supplied fill of 0 is outside the statement '
                        '(fills 1..2^64-1)', 'if the library draws randomness from another source than '
                        'secrets.randbits only freshness (two fills differ) is judged',
                        'des_ref / aes_ref are self-checked against FIPS known answers at start-up'],
        'bounds': {'pin_lengths': [4, 12], 'pan_lengths': [13, 19], 'deviations': 2},
        'exhaustive': True,
    }


def _fresh_in_child(_):
    a = core.Acc()
    a.bag['fresh_fills'] = fresh_fills()
    return a


def replay_case(case):
    acc = core.Acc()
    if case.get('fork_fresh'):
        # three child processes forked now (the library is already imported), three fills each
        for a in core.pmap(_fresh_in_child, [0, 1, 2], nworkers=3):
            acc.merge(a)
        finalize_acc(acc)
        return acc
    check_case(case, acc)
    return acc


def selfcheck():
    des_ref.selfcheck()
    aes_ref.selfcheck()
    pin_ref.selfcheck()
