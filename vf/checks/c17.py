"""
C17 - File inspection recognises writer output: validity, encoding family, blocking.
E2: files produced by the real IpmWriter over first-record shapes x codecs x format x every block count 1..10,
plus the invalid classes with their boundary values.
"""
import io
import struct

from vf import core, isogen
from vf.ref import iso_ref

PROPERTY = 'C17'
LEVEL = 'exploration'

ASCII_FAMILY = ['latin_1', 'ascii', 'cp1252']
EBCDIC_FAMILY = ['cp500', 'cp037', 'cp1140']


def first_message(shape):
    cfg = isogen.get_cfg('PKG')
    if shape == 'full':
        msg = {'MTI': '1240'}
        for b in isogen.bits_of('PKG'):
            if cfg[str(b)].get('field_processor') == 'PDS':
                continue
            kind, param = isogen.default_variant(cfg[str(b)])
            msg['DE%d' % b] = isogen.build_value(cfg[str(b)], kind, param, 'ascii', 0, b)
        msg['PDS0023'] = 'ABC'
        return msg
    if shape == 'mti_only':
        return {'MTI': '1644'}
    if shape == 'all_bytes':
        # binary chip data that contains every byte value 0..255 (line feed, NUL, 0x40 ... among them)
        tlvs = [(b'\x9f\x26', bytes(range(0, 128))), (b'\x82', bytes(range(128, 256)))]
        return {'MTI': '1240', 'DE3': '000000', 'DE55': iso_ref.icc_build(tlvs), 'DE72': 'L' * 500}
    bit = int(shape)
    kind, param = isogen.default_variant(cfg[str(bit)])
    return {'MTI': '1240', 'DE%d' % bit: isogen.build_value(cfg[str(bit)], kind, param, 'ascii', 0, bit)}


def filler(i):
    m = {'MTI': '1240', 'DE2': '5%015d' % i, 'DE72': 'F' * 900, 'DE127': 'G' * (50 + i % 40)}
    if i % 2:
        m['DE72'] = 'F' * 600
        m['DE55'] = iso_ref.icc_build([(b'\x9f\x26', bytes(range(0, 128))), (b'\x82', bytes(range(128, 256)))])
    return m


def writer_file(shape, enc, blocked, blocks):
    """file from the real writer whose blocked form has exactly `blocks` blocks (records added until it does)"""
    from cardutil import mciipm
    msgs = [first_message(shape)]
    while True:
        f = io.BytesIO()
        w = mciipm.IpmWriter(f, encoding=enc, blocked=True)
        for m in msgs:
            w.write(dict(m))
        w.close()
        n = len(f.getvalue()) // 1014
        if n >= blocks:
            break
        msgs.append(filler(len(msgs)))
    if n != blocks:
        return None, n
    if blocked:
        return f.getvalue(), n
    g = io.BytesIO()
    w = mciipm.IpmWriter(g, encoding=enc, blocked=False)
    for m in msgs:
        w.write(dict(m))
    w.close()
    return g.getvalue(), n


def check_valid_case(case, acc):
    from cardutil import mciipm
    data, n = writer_file(case['shape'], case['enc'], case['blocked'], case['blocks'])
    if data is None:
        return
    acc.case((case['shape'], case['enc'], case['blocked'], case['blocks']), nontrivial=True,
             outcome='%s/%d blocks' % ('1014' if case['blocked'] else 'vbs', case['blocks']))
    try:
        info = _info(mciipm, data)
    except Exception as ex:
        acc.viol('c17.exception', case, repr(ex), 'info dict')
        return
    if info.get('isValidIPM') is not True:
        acc.viol('c17.valid.reported_invalid', case, repr(info), 'isValidIPM True', 'writer-produced file')
        return
    mti = data[4:8]
    encname = info.get('encoding')
    try:
        ok = mti.decode(encname).isdigit() and mti.decode(encname) == mti.decode(case['enc'])
    except Exception:
        ok = False
    fam_ok = (encname in ('latin1', 'latin_1', 'ascii', 'cp1252', 'iso8859-1')) == (case['enc'] in ASCII_FAMILY)
    if not ok or not fam_ok:
        acc.viol('c17.encoding_family', case, repr(encname), 'a codec of the %s family' % (
            'ASCII' if case['enc'] in ASCII_FAMILY else 'EBCDIC'))
        return
    if case['blocked']:
        if info.get('isBlocked') is not True:
            acc.viol('c17.blocked.not_recognised', case, repr(info.get('isBlocked')), 'isBlocked True',
                     'blocked writer file of %d block(s), %d bytes' % (n, len(data)))
    else:
        looks = len(data) >= 1014 and data[1012:1014] == b'\x40\x40'
        if not looks and info.get('isBlocked') is not False:
            acc.viol('c17.unblocked.reported_blocked', case, repr(info.get('isBlocked')), 'isBlocked False',
                     'unblocked file whose bytes 1012-1013 are %r' % data[1012:1014])
        if looks:
            acc.count('unblocked_files_with_0x40_at_1012_1013_either_answer_accepted')


def check_probe_case(case, acc):
    """unblocked writer files whose bytes 1012, 1013 (and 2026, 2027) are individually 0x40 or not"""
    from cardutil import mciipm
    enc = case['enc']
    fill = 'X'
    at = '@' if enc in ASCII_FAMILY else ' '          # the character that encodes to 0x40
    # record 1: MTI + bitmap + DE72 (LLLVAR 999): DE72 text starts at file offset 4 + 20 + 3 = 27
    t1 = [fill] * 999
    for off, is40 in ((1012, case['b'][0]), (1013, case['b'][1])):
        t1[off - 27] = at if is40 else fill
    msgs = [{'MTI': '1240', 'DE72': ''.join(t1)}]
    if case['size'] == 'exact1014':
        # total = 4 + 20 + 3 + n + 4 = 1014  ->  n = 983 ; bytes 1012-1013 are then terminator bytes: skip
        return
    # record 2 starts at 4 + 1022 = 1026; its DE72 text starts at 1026 + 4 + 20 + 3 = 1053
    t2 = [fill] * 999
    for off, is40 in ((2026, case['b'][2]), (2027, case['b'][3])):
        t2[off - 1053] = at if is40 else fill
    msgs.append({'MTI': '1240', 'DE72': ''.join(t2)})
    msgs.append({'MTI': '1240', 'DE72': 'tail'})
    f = io.BytesIO()
    w = mciipm.IpmWriter(f, encoding=enc, blocked=False)
    for m in msgs:
        w.write(m)
    w.close()
    data = f.getvalue()
    want = [0x40 if x else None for x in case['b']]
    got = [data[1012], data[1013], data[2026], data[2027]]
    for g, wv in zip(got, want):
        if (g == 0x40) != (wv == 0x40):
            raise core.Broken('probe file layout is not what the generator intended: %r' % got)
    acc.case(('probe', enc, tuple(case['b'])), nontrivial=True, outcome='probe')
    try:
        info = _info(mciipm, data)
    except Exception as ex:
        acc.viol('c17.exception', case, repr(ex), 'info dict')
        return
    if info.get('isValidIPM') is not True:
        acc.viol('c17.valid.reported_invalid', case, repr(info), 'isValidIPM True')
        return
    if not (case['b'][0] and case['b'][1]) and info.get('isBlocked') is not False:
        acc.viol('c17.unblocked.reported_blocked', case, repr(info.get('isBlocked')), 'isBlocked False',
                 'unblocked file with bytes 1012-1013 = %02x %02x, 2026-2027 = %02x %02x' % tuple(got))


def _info(mciipm, data):
    """ipm_info on a file object whose KIND is chosen by the data (so that a replay makes the same choice):
    in-memory, real file, non-seekable stream, object with nothing but read()"""
    from vf import fileobjs
    kind = fileobjs.ALL_READ_KINDS[(len(data) + (data[5] if len(data) > 5 else 0)) % 7]
    if len(data) > 100000 and kind == 'file':
        kind = 'pipe'
    fo, done = fileobjs.reader(kind, data)
    try:
        return mciipm.ipm_info(fo)
    finally:
        done()


def check_config_sequence(case, acc):
    """ipm_info judges the first bitmap against the configuration AS IT IS when it is called: inspect, edit the
    packaged bit_config in place (configure DE7, de-configure DE26), inspect again, restore, inspect again"""
    import copy
    from cardutil import mciipm, config
    live = config.config['bit_config']
    saved = copy.deepcopy(live)
    rebind = case.get('mode') == 'rebind'
    acc.case(('cfgseq', case['enc'], case['blocked'], tuple(case['steps']), rebind), nontrivial=True,
             outcome='config_sequence' + ('_rebind' if rebind else ''))
    original = live

    def file_with(bit, value, cfg):
        f = io.BytesIO()
        w = mciipm.IpmWriter(f, encoding=case['enc'], blocked=case['blocked'], iso_config=cfg)
        w.write({'MTI': '1240', 'DE%d' % bit: value})
        w.close()
        return f.getvalue()
    cfg7 = copy.deepcopy(saved)
    cfg7['7'] = {'field_name': 'added at run time', 'field_type': 'FIXED', 'field_length': 10}
    files = {'de7': file_with(7, '0102030405', cfg7), 'de26': file_with(26, 5411, saved), 'de3': file_with(3, '000000', saved)}
    try:
        for step in case['steps']:
            if rebind and not step.startswith('info'):
                # a NEW configuration object is installed as the package default (config['bit_config'] = ..., what
                # loading a site configuration does) instead of editing the old one in place
                live = copy.deepcopy(config.config['bit_config'])
                config.config['bit_config'] = live
            if step == 'add7':
                live['7'] = dict(cfg7['7'])
            elif step == 'del7':
                live.pop('7', None)
            elif step == 'del26':
                live.pop('26', None)
            elif step == 'add26':
                live['26'] = copy.deepcopy(saved['26'])
            else:
                name = step.split(':')[1]
                needs = {'de7': '7', 'de26': '26', 'de3': '3'}[name]
                want_valid = needs in live
                try:
                    info = _info(mciipm, files[name])
                except Exception as ex:
                    acc.viol('c17.cfgseq.exception', case, repr(ex), 'info dict')
                    return
                if bool(info.get('isValidIPM')) != want_valid or (not want_valid and not info.get('reason')):
                    acc.viol('c17.cfgseq.%s' % ('valid_reported_invalid' if want_valid else 'invalid_reported_valid'),
                             case, 'step %s: %r' % (step, info), 'isValidIPM %s' % want_valid,
                             'element %s is %sconfigured at the time of the call' % (needs, '' if want_valid else 'not '))
                    return
    finally:
        config.config['bit_config'] = original
        original.clear()
        original.update(saved)


CONFIG_SEQUENCES = [
    ['info:de3', 'add7', 'info:de7', 'del7', 'info:de7', 'info:de3'],
    ['info:de7', 'add7', 'info:de7', 'info:de26', 'del26', 'info:de26', 'add26', 'info:de26'],
    ['info:de26', 'del26', 'info:de26', 'info:de3', 'add26', 'add7', 'info:de7', 'info:de26'],
    ['add7', 'info:de7', 'del7', 'info:de7', 'add7', 'info:de7'],
]


def check_invalid_case(case, acc):
    from cardutil import mciipm, config
    kind = case['kind']
    acc.case((kind, case.get('n'), case.get('bit'), case.get('max'), repr(case.get('bytes'))), nontrivial=True,
             outcome='invalid:' + kind)
    old = config.config.get('MAX_VBS_RECORD_LENGTH')
    bm_ok = b'\xc0' + b'\x00' * 15
    try:
        if case.get('max') is not None:
            config.config['MAX_VBS_RECORD_LENGTH'] = case['max']
        mx = config.config.get('MAX_VBS_RECORD_LENGTH', 6000)
        expect_invalid = True
        if kind == 'short':
            body = (struct.pack('>I', 20) + b'1240' + bm_ok + b'02AB')[:case['n']]
            expect_invalid = case['n'] < 24
            data = body
            if not expect_invalid:
                data = struct.pack('>I', 24) + b'1240' + bm_ok + b'02AB' + b'\x00' * (case['n'] - 28)
                data = data[:case['n']]
        elif kind == 'first_length':
            ln = mx + case['delta']
            data = struct.pack('>I', ln) + b'1240' + bm_ok + b'02AB' + b'x' * 40
            expect_invalid = case['delta'] > 0
        elif kind == 'full_byte':
            bm = bytearray(16)
            bm[0] |= 0x80
            for i in case['bytes']:
                bm[i] = 0xff
            data = struct.pack('>I', 60) + b'1240' + bytes(bm) + b'x' * 60
        elif kind == 'unconfigured_bit':
            bm = bytearray(16)
            bm[0] |= 0x80
            bit = case['bit']
            bm[(bit - 1) // 8] |= 0x80 >> ((bit - 1) % 8)
            data = struct.pack('>I', 60) + b'1240' + bytes(bm) + b'x' * 60
        try:
            info = _info(mciipm, data)
        except Exception as ex:
            acc.viol('c17.exception', case, repr(ex), 'info dict')
            return
    finally:
        config.config['MAX_VBS_RECORD_LENGTH'] = old
    if expect_invalid:
        if info.get('isValidIPM') is not False or not info.get('reason'):
            acc.viol('c17.invalid.%s' % kind, case, repr(info), 'isValidIPM False with a reason')
    else:
        if info.get('isValidIPM') is not True and kind == 'first_length':
            acc.viol('c17.valid.boundary_rejected', case, repr(info), 'valid: first length equals the maximum')


def replay_into(case, acc):
    if case.get('kind') == 'probe':
        check_probe_case(case, acc)
    elif case.get('kind') == 'cfgseq':
        check_config_sequence(case, acc)
    elif case.get('kind'):
        check_invalid_case(case, acc)
    else:
        check_valid_case(case, acc)


def enumerate_cases(tier, seed):
    cases = []
    shapes = ['full', 'mti_only', 'all_bytes'] + [str(b) for b in isogen.bits_of('PKG')]
    maxblocks = 10 if tier == 'quick' else 14
    for shape in shapes:
        for enc in ASCII_FAMILY + EBCDIC_FAMILY:
            for blocked in (True, False):
                for blocks in range(1, maxblocks + 1):
                    cases.append({'shape': shape, 'enc': enc, 'blocked': blocked, 'blocks': blocks})
    import itertools
    for enc in ASCII_FAMILY + EBCDIC_FAMILY:
        for b in itertools.product((False, True), repeat=4):
            cases.append({'kind': 'probe', 'enc': enc, 'b': list(b), 'size': 'long'})
    for steps in CONFIG_SEQUENCES:
        for enc in ('latin_1', 'cp500'):
            for blocked in (False, True):
                cases.append({'kind': 'cfgseq', 'enc': enc, 'blocked': blocked, 'steps': steps})
                cases.append({'kind': 'cfgseq', 'enc': enc, 'blocked': blocked, 'steps': steps, 'mode': 'rebind'})
    for n in range(0, 40):
        cases.append({'kind': 'short', 'n': n})
    for mx in (None, 0, 1, 23, 100, 1012, 6000, 65535, 100000):
        for delta in (-1, 0, 1, 2, 1000):
            if (mx or 0) + delta >= 0 or mx is None:
                cases.append({'kind': 'first_length', 'delta': delta, 'max': mx})
    for i in range(16):
        cases.append({'kind': 'full_byte', 'bytes': [i]})
    cases.append({'kind': 'full_byte', 'bytes': list(range(16))})
    cases.append({'kind': 'full_byte', 'bytes': [0, 15]})
    configured = set(isogen.bits_of('PKG'))
    for bit in range(2, 129):
        if bit not in configured:
            cases.append({'kind': 'unconfigured_bit', 'bit': bit})
    return cases


def tasks(tier, seed):
    return [{'cases': ch} for ch in core.chunks(enumerate_cases(tier, seed), 64)]


def run_task(task):
    acc = core.Acc()
    for i, case in enumerate(task['cases']):
        if i == 0:
            acc.sample(case)
        replay_into(case, acc)
    return acc


def describe(tier, seed):
    return {
        'rule': 'files written by the real IpmWriter: first record = each configured element alone (44 shapes), all '
                'elements, MTI only; codecs %s | %s; VBS and 1014; EVERY block count 1..%d (filler records are added '
                'until the blocked form has exactly that many blocks). Oracle: isValidIPM true; reported encoding '
                'decodes the MTI and belongs to the right family; blocked files isBlocked true; unblocked files '
                'isBlocked false unless bytes 1012-1013 are both 0x40; plus unblocked files whose bytes 1012, 1013, 2026, '
                '2027 are each 0x40 or not (all 16 combinations x 6 codecs: 0x40 is @ in ASCII and space in EBCDIC). '
                'Sequences in which the packaged configuration is edited in place between inspections (DE7 configured / '
                'removed, DE26 removed / restored): each call is judged against the configuration as it is then. '
                'Invalid classes: lengths 0..39 (valid from 24), '
                'first length max-1/max/max+1/+2/+1000 under MAX_VBS_RECORD_LENGTH default/100/1012, each of the %d '
                'unconfigured bits of 2..128 alone in the first bitmap, bitmaps with a completely set byte at each of the 16 '
                'positions / all ones: isValidIPM false with a non-empty reason.'
                % (ASCII_FAMILY, EBCDIC_FAMILY, 10 if tier == 'quick' else 14, 127 - len(isogen.bits_of('PKG'))),
        'assumptions': ['encoding family is judged semantically: the reported codec must decode the MTI to the digits '
                        'that were written and be ASCII- resp. EBCDIC-based',
                        'thorough extends the block counts to 14'],
        'bounds': {'block_counts': [1, 10 if tier == 'quick' else 14]},
        'exhaustive': True,
    }


def replay_case(case):
    acc = core.Acc()
    replay_into(case, acc)
    return acc


def selfcheck():
    iso_ref.selfcheck()
