"""
C12 - PDS sub-elements are packed into carrier elements and recovered without loss.
E2: exhaustive boundary sweep of value-length pairs around the 999-character carrier cap, zero-length values,
header look-alike values, 1..5 carriers, tag extremes; packaged and generated configurations.
"""
import copy

from vf import core, isogen
from vf.ref import iso_ref

PROPERTY = 'C12'
LEVEL = 'exploration'


def check_case(case, acc):
    from cardutil import iso8583
    msg, exp, cfg = isogen.build_message(case)
    kw = dict(encoding=case['enc'], iso_config=isogen.lib_cfg(case), hex_bitmap=case['hex'])
    pds = {k: v for k, v in msg.items() if k.startswith('PDS')}
    want_carriers = iso_ref.pds_pack(pds)
    bits = iso_ref.pds_carrier_bits(cfg)
    acc.case((case['cfg'], case['enc'], repr(case['pds']), repr(case['f']), case.get('pds_coding')),
             nontrivial=len(pds) > 0, outcome='%d carriers' % len(want_carriers))
    try:
        data = iso8583.dumps(copy.deepcopy(msg), **kw)
    except Exception as ex:
        acc.viol('c12.dumps.exception', case, repr(ex), 'bytes')
        return
    # independent reading of the produced bytes: which carrier elements hold what
    try:
        seen = iso_ref.decode(data, {k: ({kk: vv for kk, vv in v.items() if kk != 'field_processor'}
                                          if v.get('field_processor') == 'PDS' else v) for k, v in cfg.items()},
                              case['enc'], case['hex'])
    except iso_ref.RefError as ex:
        acc.viol('c12.encode.unreadable', case, str(ex), 'a well-framed message')
        return
    got_carriers = [seen['DE%d' % b] for b in bits if 'DE%d' % b in seen]
    used_bits = [b for b in bits if 'DE%d' % b in seen]
    # The statement fixes order, the 999 cap, no splitting and the tag4 len3 value rendering - not greediness.
    # So: carriers in ascending element order must concatenate to the ascending-tag stream, every carrier boundary
    # must fall on a sub-element boundary, and no carrier may exceed 999 characters.
    stream = ''.join(want_carriers)
    pieces = ['%04d%03d%s' % (int(k[3:]), len(v), v) for k, v in sorted(pds.items(), key=lambda kv: int(kv[0][3:]))]
    bounds = set()
    pos = 0
    for pc in pieces:
        pos += len(pc)
        bounds.add(pos)
    why = None
    if ''.join(got_carriers) != stream:
        why, sig = 'carriers do not concatenate to the ascending tag(4) length(3) value stream', 'c12.packing.stream'
    elif any(len(c) > 999 for c in got_carriers):
        why, sig = 'a carrier holds more than 999 characters', 'c12.packing.over999'
    else:
        pos = 0
        for c in got_carriers:
            pos += len(c)
            if pos not in bounds:
                why, sig = 'a sub-element is split between two carriers', 'c12.packing.split'
                break
    if not why and used_bits != bits[:len(used_bits)]:
        why, sig = 'the carriers used are not the lowest configured carrier elements', 'c12.packing.carrier_order'
    if why:
        acc.viol(sig, case, '%s: carrier lengths %s on elements %s' % (why, [len(c) for c in got_carriers], used_bits),
                 'e.g. carrier lengths %s on elements %s' % ([len(c) for c in want_carriers],
                                                             bits[:len(want_carriers)]),
                 'ascending tags, <=999 per carrier, no split, tag4 len3 value, ascending carrier elements')
        return
    if got_carriers != want_carriers:
        acc.count('non_greedy_but_conformant_packings')
    try:
        out = iso8583.loads(data, **kw)
    except Exception as ex:
        acc.viol('c12.loads.exception', case, repr(ex), 'dict')
        return
    got = {k: v for k, v in out.items() if k.startswith('PDS')}
    if got != pds:
        diff = sorted(set(got) ^ set(pds)) or [k for k in pds if got[k] != pds[k]]
        acc.viol('c12.recovery', case, 'differs at %s' % diff[:4], 'the same set of PDSxxxx entries')
        return
    for k, v in exp.items():
        if out.get(k) != v:
            acc.viol('c12.other_element', case, '%s=%r' % (k, out.get(k)), repr(v)[:80])
            return


def check_move_case(case, acc):
    """one caller-owned configuration object; between calls the set of PDS carrier elements is edited in place.
    Packing and recovery must follow the configuration as it is at each call."""
    import copy as _copy
    live = saved = None
    if case.get('default'):
        # the object edited in place is the PACKAGE's own bit_config, and the calls pass no iso_config (odd steps) or
        # that very object (even steps)
        from cardutil import config as libconfig
        live = libconfig.config['bit_config']
        saved = _copy.deepcopy(live)
        isogen.set_live(live)
    else:
        isogen.set_live(_copy.deepcopy(isogen.get_cfg(case['base'])))
    try:
        for i, edits in enumerate(case['edits']):
            for e in edits:
                isogen.apply_edit(isogen._LIVE['cfg'], e)
            tmp = core.Acc()
            sub = {'cfg': 'LIVE', 'enc': case['enc'], 'hex': False, 'seed': case.get('seed', 0), 'f': [],
                   'pds': case['pds']}
            if case.get('default') and i % 2 == 0:
                sub['via_default'] = True
            check_case(sub, tmp)
            for sig, (n, dets) in tmp.violations.items():
                acc.viol(sig.replace('c12.', 'c12.inplace.', 1), case, dets[0]['observed'], dets[0]['expected'],
                         'step %d, after in-place edits %s of the configuration object' % (i + 1, edits))
                return
    finally:
        if live is not None:
            live.clear()
            live.update(saved)
    acc.case(('move', case['base'], case['enc'], repr(case['pds']), repr(case['edits']), case.get('default')), nontrivial=True,
             outcome='inplace')


def move_cases(seed):
    out = []
    sets = [[[1, 900], [2, 500], [3, 3]], [[23, 3], [158, 12]], [[1, 992], [2, 992], [3, 992]]]
    for base in ('PKG', 'GEN%d' % (seed % 14)):
        cfg = isogen.get_cfg(base)
        carriers = iso_ref.pds_carrier_bits(cfg)
        texts = [b for b in isogen.bits_of(base) if isogen.field_class(cfg[str(b)]) == 'var'
                 and iso_ref.prefix_len(cfg[str(b)]) == 3]
        for k in range(min(3, len(carriers), len(texts))):
            c1, t1 = carriers[k], texts[k]
            off = [['del', c1, 'field_processor'], ['set', t1, 'field_processor', 'PDS']]
            on = [['set', c1, 'field_processor', 'PDS'], ['del', t1, 'field_processor']]
            for pds in sets:
                for enc in ('latin_1', 'cp500'):
                    out.append({'kind': 'move', 'base': base, 'enc': enc, 'pds': pds, 'seed': seed,
                                'edits': [[], off, on, off, []]})
                    if base == 'PKG':
                        out.append({'kind': 'move', 'base': base, 'enc': enc, 'pds': pds, 'seed': seed,
                                    'edits': [[], off, on, off, []], 'default': True})
                        out.append({'kind': 'move', 'base': base, 'enc': enc, 'pds': pds, 'seed': seed,
                                    'edits': [off, [], on, off], 'default': True})
    return out


def families(tier):
    fams = []
    # (a) exhaustive boundary sweep for two tags
    two = []
    for total in range(985, 1006):
        for l1 in range(0, total - 14 + 1):
            l2 = total - 14 - l1
            if l1 <= 992 and l2 <= 992:
                two.append([[1, l1], [2, l2]])
    fams.append(('two_tags_boundary', two))
    # (b) three tags around the second boundary (first carrier already full)
    three = []
    for first in (985, 992, 0, 500):
        for total in range(985, 1006):
            for l2 in sorted(set([0, 1, 2, 7, 100, 492, total - 14 - 992, total - 14 - 500, total - 14 - 1,
                                  total - 14])):
                l3 = total - 14 - l2
                if 0 <= l2 <= 992 and 0 <= l3 <= 992:
                    three.append([[10, first], [20, l2], [30, l3]])
    fams.append(('three_tags_boundary', three))
    # (c) zero-length values, tag extremes, many carriers, many empties
    misc = [
        [[1, 0]], [[1, 0], [2, 5]], [[1, 5], [2, 0], [3, 5]], [[1, 5], [2, 5], [3, 0]], [[1, 0], [2, 0], [3, 0]],
        [[1, 1]], [[999, 3]], [[9999, 3]], [[1, 3], [999, 3], [9999, 3]], [[0, 3], [9999, 992]],
        [[1, 992]], [[1, 992], [2, 992]], [[1, 992], [2, 992], [3, 992]], [[1, 992], [2, 992], [3, 992], [4, 992]],
        [[1, 992], [2, 992], [3, 992], [4, 992], [5, 992]],
        [[i + 1, 0] for i in range(199)], [[i + 1, 0] for i in range(142)], [[i + 1, 0] for i in range(143)],
        [[i * 3 + 1, (i * 37) % 120] for i in range(60)],
        [[5000 - i, 100 + i] for i in range(30)],
        [[23, 3], [52, 3], [122, 1], [148, 4], [158, 12], [165, 30]],
    ]
    fams.append(('misc', misc))
    return fams


def tasks(tier, seed):
    combos = [('PKG', 'latin_1'), ('PKG', 'cp500'), ('GEN%d' % (seed % 14), 'latin_1'),
              ('GEN%d' % ((seed + 3) % 14), 'cp037')]
    # the same configurations handed over with their keys in string-sorted order ('123' < '124' < '48' < '62'), as
    # a configuration loaded from JSON written with sort_keys has them: "ascending element order" is numeric
    combos += [('PKGS', 'latin_1'), ('GEN%dS' % (seed % 14), 'cp500')]
    # ... and after a JSON round trip (equal, not identical, strings)
    combos += [('PKGJ', 'cp500'), ('GEN%dJ' % ((seed + 3) % 14), 'latin_1')]
    if tier == 'thorough':
        combos += [('PKG', 'cp037'), ('PKG', 'ascii')] + [('GEN%d' % s, 'cp500') for s in range(14)]
        combos += [('GEN%dS' % s, 'latin_1') for s in range(14)]
    ts = []
    for name, sets in families(tier):
        for cfgname, enc in combos:
            if name != 'misc' and tier == 'quick' and cfgname != 'PKG' and enc != 'latin_1':
                continue
            for ch in core.spread(sets, 24 if len(sets) > 500 else 2):
                ts.append({'fam': name, 'cfg': cfgname, 'enc': enc, 'sets': ch, 'seed': seed})
    ts.append({'fam': 'move', 'cases': move_cases(seed), 'cfg': '-', 'enc': '-', 'seed': seed})
    return ts


def run_task(task):
    acc = core.Acc()
    if task['fam'] == 'move':
        acc.sample(task['cases'][0])
        for case in task['cases']:
            check_move_case(case, acc)
        return acc
    cfg = isogen.get_cfg(task['cfg'])
    others = []
    # a few ordinary elements around the carriers, so that neighbours are present
    for b in isogen.bits_of(task['cfg']):
        bc = cfg[str(b)]
        if isogen.field_class(bc) in ('fixed', 'num') and len(others) < 3:
            others.append([b] + isogen.default_variant(bc))
    for i, pset in enumerate(task['sets']):
        codings = ('text', 'digits', 'full') if (task['fam'] == 'misc' or i % 4 == 0) else \
            ('text', 'full') if i % 4 == 2 else ('text',)
        for coding in codings:
            for with_others in ((False, True) if task['fam'] == 'misc' else (bool(i % 2),)):
                case = {'cfg': task['cfg'], 'enc': task['enc'], 'hex': False, 'seed': task['seed'],
                        'f': others if with_others else [], 'pds': pset}
                if coding != 'text':
                    case['pds_coding'] = coding
                if i == 0 and coding == 'text':
                    s = dict(case)
                    if len(pset) > 8:
                        s['pds'] = pset[:8] + ['... %d tags' % len(pset)]
                    acc.sample(s)
                check_case(case, acc)
    return acc


def describe(tier, seed):
    fams = families(tier)
    return {
        'rule': 'PDS sets [tag, value length]: (a) every (l1,l2) with 14+l1+l2 in 985..1005 (%d pairs, exhaustive '
                'boundary sweep), (b) three-tag sets sweeping the second carrier boundary (%d), (c) zero-length values '
                'first/middle/last, tags 0000/0001/0999/9999, 1..5 full carriers, 142/143/199 empty sub-elements, '
                'mixed sets; values position-coded text, digit-only (header look-alikes) and the non-ASCII single-byte characters of '
                'the codec; with and without '
                'neighbouring ordinary elements; packaged and generated carrier placement; latin_1/cp500/cp037; '
                'in-place sequences: one configuration object whose set of carrier elements is edited between calls. '
                'Oracle: carriers found by an independent reading of the dumps output, in ascending element order, '
                'concatenate to the ascending-tag tag4 len3 value stream, none exceeds 999 characters, every carrier '
                'boundary is a sub-element boundary; sets that fit greedily must not be refused; loads returns '
                'exactly the input PDS set. Distinct by (cfg, codec, set, coding, neighbours); non-trivial = at least '
                'one sub-element.' % (len(fams[0][1]), len(fams[1][1])),
        'assumptions': ['values 0..992 characters, distinct 4-digit tags, total within the carriers of the '
                        'configuration', 'reference packing: vf/ref/iso_ref.py:pds_pack'],
        'bounds': {'two_tag_pairs': len(fams[0][1]), 'three_tag_sets': len(fams[1][1]), 'misc_sets': len(fams[2][1])},
        'exhaustive': True,
    }


def replay_case(case):
    acc = core.Acc()
    if case.get('kind') == 'move':
        check_move_case(case, acc)
    else:
        check_case(case, acc)
    return acc


def selfcheck():
    iso_ref.selfcheck()
