"""
C01 - ISO8583 round trip: decoding an encoded message returns every value unchanged.
E2: exhaustive enumeration of singles (each element x every admissible length / value variant), all pairs of
elements x boundary variants, structured long-message families; x configurations x codecs x bitmap renderings.
"""
from vf import core, isocheck, isogen
from vf.ref import iso_ref

PROPERTY = 'C01'
LEVEL = 'exploration'


def tasks(tier, seed):
    return isocheck.plan(tier, seed, 'C01')


def run_task(task):
    return isocheck.run_task(task)


def describe(tier, seed):
    ts = tasks(tier, seed)
    combos = sorted({(t['cfg'], t['enc'], t['hex']) for t in ts if t['fam'] == 'singles'})
    return {
        'rule': 'for each (configuration, codec, bitmap) in %d combinations: (A) every configured element alone x every '
                'admissible variant (LLVAR every length 1..99, LLLVAR every length 1..999, PAN every length 10..99, '
                'ICC TLV lists of every length 2..999, raw PDS carriers of every length 7..999, numbers 0/1/10^(w-1)/'
                '10^w-1/mixed, every year 1969..2068 x 4 days, decimals, DE43 texts, full codec repertoire); '
                '(B) every unordered pair of elements x {shortest,longest}^2; (C) all elements, all-but-one, <=64, '
                '>=65, even/odd bits, every window of 8, MTI variants, empty; (D) sequences: every ordinary use of another part '
                'of the library (10 pre steps: the conversion / CSV / parameter tools, ipm_info, a custom-configuration '
                'codec call, dumps of the same dict twice, a failing decode) singly and in every ordered pair before a '
                'message using PDS, ICC, DE43 and typed fields under the default configuration, and A,B,A,.. '
                'alternations of configurations / codecs / bitmap renderings on every element; the package default configuration REPLACED by another one between calls that pass no iso_config. Also: a configuration of wide elements (FIXED text of 1002..2000 characters, 30/60-digit numbers, 31/40-digit decimals, entries without field_name); numbers and decimals handed over as text (plain, zero-filled, with surplus leading zeros); every message encoded a second time with its keys inserted in reverse order (same bytes required); calls made with keyword options, positionally, and with the codec named by a registered alias, by turns. Oracle: loads(dumps(copy)) has every '
                'original key with an equal value (masked / prefix for PAN processors) and only documented extras. '
                'A case is distinct by (cfg, codec, bitmap, element variants); non-trivial when it carries at least '
                'one element.' % len(combos),
        'assumptions': ['zero-length variable values, DE1, bit 128, negative numbers, tz-aware dates, str for the ICC '
                        'element, PDS keys together with explicit carriers, duplicate tags are outside the domain',
                        'subsets beyond singles, pairs (thorough: all triples of the packaged configuration) and the structured '
                        'long families are not enumerated',
                        'generated configurations: bit b has kind KINDS[(b+s) mod 14]; quick uses 2 shifts (rotated '
                        'by VERIF_SEED), thorough all 14'],
        'bounds': {'combinations': [list(c) for c in combos][:40], 'tasks': len(ts)},
        'exhaustive': True,
    }


def replay_case(case):
    acc = core.Acc()
    if 'alt' in case:
        isocheck.check_sequence(case, acc, isocheck.check_roundtrip, 'c01')
    else:
        isocheck.check_roundtrip(case, acc, 'c01')
    return acc


def selfcheck():
    iso_ref.selfcheck()
