"""Runner: python -m vf.run <ID> [--tier quick|thorough] [--replay FILE]."""
import argparse
import importlib
import json
import os
import sys
import time
import traceback

from vf import core


def main(argv=None):
    ap = argparse.ArgumentParser()
    ap.add_argument('prop')
    ap.add_argument('--tier', default=os.environ.get('VERIF_TIER', 'quick'), choices=['quick', 'thorough'])
    ap.add_argument('--replay')
    args = ap.parse_args(argv)
    try:
        seed = int(os.environ.get('VERIF_SEED', '0') or 0)
    except ValueError:
        seed = 0
    prop = args.prop.upper()
    t0 = time.time()
    core._TIER['tier'] = args.tier
    core.quiet_library()
    try:
        mod = importlib.import_module('vf.checks.' + prop.lower())
        import cardutil
        if not os.path.abspath(cardutil.__file__).startswith(os.path.abspath(core.REPO) + os.sep):
            raise core.Broken('cardutil imported from %s, not from %s' % (cardutil.__file__, core.REPO))
        if args.replay:
            import signal
            rec = json.load(open(args.replay))
            case = rec.get('case')
            signal.signal(signal.SIGPROF, core._on_prof)
            signal.setitimer(signal.ITIMER_PROF, core.task_cpu_limit(args.tier))
            if case is None:
                print('this replay file records a whole-check time-out; re-run: %s' % rec.get('replay_cmd'))
                return 1
            if isinstance(case, dict) and 'task_index' in case and hasattr(mod, 'tasks'):
                ts = mod.tasks(case['tier'], case['seed'])
                fn = core.safe_task(mod.run_task, prop, case['tier'], case['seed'])
                if case.get('worker_sequence'):
                    n = min(core.NWORKERS, max(1, len(ts)))
                    acc = core.Acc()
                    for i in range(case['task_index'] % n, case['task_index'] + 1, n):
                        acc.merge(fn((i, ts[i])))
                else:
                    acc = fn((case['task_index'], ts[case['task_index']]))
            else:
                acc = mod.replay_case(case)
            if acc.violations:
                for sig, (n, det) in sorted(acc.violations.items()):
                    print('VIOLATION property=%s replay=%s' % (prop, args.replay))
                    print('  sig=%s observed=%s expected=%s note=%s' % (
                        sig, det[0]['observed'], det[0]['expected'], det[0]['note']))
                return 1
            print('replay: case passes on the current tree')
            return 0
        if hasattr(mod, 'selfcheck'):
            mod.selfcheck()
        if hasattr(mod, 'run'):
            acc, desc, extra = mod.run(args.tier, seed)
        else:
            desc = mod.describe(args.tier, seed)
            tasks = mod.tasks(args.tier, seed)
            acc = core.Acc()
            for r in core.pmap(core.safe_task(mod.run_task, prop, args.tier, seed), list(enumerate(tasks))):
                acc.merge(r)
            extra = {'tasks': len(tasks)}

        def worker_sequence(seq):
            """re-run, in a fresh forked process, every task the worker that owned seq['task_index'] had run up to
            and including it (static partition: task i belongs to worker i mod n)"""
            if not hasattr(mod, 'tasks'):
                return None
            ts = mod.tasks(seq['tier'], seq['seed'])
            n = min(core.NWORKERS, max(1, len(ts)))
            idxs = list(range(seq['task_index'] % n, seq['task_index'] + 1, n))
            fn = core.safe_task(mod.run_task, prop, seq['tier'], seq['seed'])

            def run_all(_):
                acc = core.Acc()
                for i in idxs:
                    acc.merge(fn((i, ts[i])))
                return acc
            return core.pmap(run_all, [0, 1], nworkers=2)[0]

        def replay(case):
            if isinstance(case, dict) and case.get('worker_sequence'):
                return worker_sequence(case)
            if isinstance(case, dict) and 'task_index' in case and hasattr(mod, 'tasks'):
                ts = mod.tasks(case['tier'], case['seed'])
                return core.safe_task(mod.run_task, prop, case['tier'], case['seed'])(
                    (case['task_index'], ts[case['task_index']]))
            return mod.replay_case(case)
        return core.finish(mod, args.tier, seed, acc, desc, t0, replay_fn=replay, extra_cov=extra,
                           sequence_fn=worker_sequence)
    except core.TaskTimeout:
        print('VIOLATION property=%s replay=%s' % (prop, args.replay))
        print('  sig=%s.no_termination observed=the replayed case did not finish within the CPU limit' % prop.lower())
        return 1
    except core.TaskHang as ex:
        # a task outside the per-task wrapper (BFS expansion) ran into the CPU watchdog: the code under test loops
        os.makedirs(os.path.join(core.VERIF, 'replays'), exist_ok=True)
        path = os.path.join(core.VERIF, 'replays', '%s-hang.json' % prop)
        with open(path, 'w') as f:
            json.dump({'property': prop, 'sig': prop.lower() + '.no_termination', 'tier': args.tier, 'seed': seed,
                       'observed': str(ex), 'replay_cmd': './check %s --tier %s' % (prop, args.tier)}, f, indent=1)
        print('VIOLATION property=%s replay=%s' % (prop, path))
        print('  sig=%s.no_termination observed=%s' % (prop.lower(), ex))
        return 1
    except core.Broken as ex:
        print('BROKEN-CHECK property=%s: %s' % (prop, ex))
        return 2
    except Exception:
        print('BROKEN-CHECK property=%s: unexpected checker error' % prop)
        traceback.print_exc()
        return 2


if __name__ == '__main__':
    sys.exit(main())
