"""Runner: python -m vf.run <ID> [--tier quick|thorough] [--replay FILE].

The main pass runs every task of the check in this process tree. After it, a slice of the same tasks is run again
in one child interpreter per *environment axis* (core.AXES): 'opt' (python -O: assert statements removed) and
'debuglog' (the library's loggers enabled at DEBUG). The properties say nothing that would make them depend on
either, so a case that passes in the main pass and fails on an axis is a violation like any other; its signature
carries '@<axis>' and its replay file re-creates the axis.
"""
import argparse
import importlib
import json
import os
import pickle
import subprocess
import sys
import tempfile
import time
import traceback

from vf import core


def axis_stride(tier, axis=None):
    try:
        base = max(1, int(os.environ.get('VERIF_AXIS_STRIDE', '') or (4 if tier == 'quick' else 2)))
    except ValueError:
        base = 4
    return base * core.AXIS_STRIDE_FACTOR.get(axis or core.AXIS, 1)


def worker_sequence(mod, prop, seq):
    """re-run, in a fresh forked process, every task the worker that owned seq['task_index'] had run up to and
    including it (static partition: the k-th selected task belongs to worker k mod n)"""
    if not hasattr(mod, 'tasks'):
        return None
    ts = mod.tasks(seq['tier'], seq['seed'])
    sel = core.selected(len(ts), seq.get('select') or (1, 0))
    n = min(core.NWORKERS, max(1, len(sel)))
    if seq['task_index'] not in sel:
        return None
    p = sel.index(seq['task_index'])
    idxs = sel[p % n:p + 1:n]
    fn = core.safe_task(mod.run_task, prop, seq['tier'], seq['seed'])

    def run_all(_):
        acc = core.Acc()
        for i in idxs:
            acc.merge(fn((i, ts[i])))
        return acc
    return core.pmap(run_all, [0, 1], nworkers=2)[0]


def replay_in_process(mod, prop, case):
    if isinstance(case, dict) and case.get('worker_sequence'):
        return worker_sequence(mod, prop, case)
    if isinstance(case, dict) and 'task_index' in case and hasattr(mod, 'tasks'):
        ts = mod.tasks(case['tier'], case['seed'])
        if case.get('select'):
            core.SELECT = tuple(case['select'])
        return core.safe_task(mod.run_task, prop, case['tier'], case['seed'])((case['task_index'], ts[case['task_index']]))
    return mod.replay_case(case)


def suffixed(acc, axis):
    """violations of a child run, renamed '<sig>@<axis>' with cases that name the axis"""
    out = core.Acc()
    out.evaluations = acc.evaluations
    out.counters = dict(acc.counters)
    for sig, (n, dets) in acc.violations.items():
        nd = []
        for d in dets:
            d = dict(d, case={'axis': axis, 'case': d['case']},
                     note=((d.get('note') or '') + ' [only when %s]' % AXIS_TEXT[axis]).strip())
            if d.get('_task'):
                d['_task'] = {'axis': axis, 'case': d['_task']}
            nd.append(d)
        out.violations[sig + '@' + axis] = [n, nd]
    return out


AXIS_TEXT = core.AXIS_TEXT


def axis_child(prop, tier, seed, axis, case=None):
    """run this check (or one case of it) in a child interpreter on the given axis -> Acc with suffixed sigs"""
    fd, out = tempfile.mkstemp(prefix='vf-axis-', suffix='.pkl')
    os.close(fd)
    casefile = None
    try:
        cmd = [sys.executable] + (['-O'] if axis == 'opt' else []) + \
              ['-m', 'vf.run', prop, '--tier', tier, '--axis', axis, '--axis-out', out]
        if case is not None:
            fd, casefile = tempfile.mkstemp(prefix='vf-axis-', suffix='.json')
            with os.fdopen(fd, 'w') as f:
                json.dump(case, f)
            cmd += ['--axis-case', casefile]
        env = dict(os.environ, VERIF_AXIS=axis, VERIF_SEED=str(seed), **core.AXIS_ENV.get(axis, {}))
        r = subprocess.run(cmd, env=env, stdout=subprocess.PIPE, stderr=subprocess.STDOUT, text=True)
        if r.returncode != 0 or not os.path.getsize(out):
            raise core.Broken('the %s-axis child process failed (exit %s):\n%s' % (axis, r.returncode,
                                                                                  (r.stdout or '')[-3000:]))
        with open(out, 'rb') as f:
            acc = pickle.load(f)
        return suffixed(acc, axis)
    finally:
        for p in (out, casefile):
            if p and os.path.exists(p):
                os.unlink(p)


def main_pass(mod, prop, tier, seed):
    if hasattr(mod, 'run'):
        acc, desc, extra = mod.run(tier, seed)
        return acc, desc, dict(extra or {})
    desc = mod.describe(tier, seed)
    tasks = mod.tasks(tier, seed)
    sel = core.selected(len(tasks))
    acc = core.Acc()
    for r in core.pmap(core.safe_task(mod.run_task, prop, tier, seed), [(i, tasks[i]) for i in sel]):
        acc.merge(r)
    if hasattr(mod, 'finalize_acc'):
        mod.finalize_acc(acc)          # judgements over what all tasks (in all worker processes) observed together
    return acc, desc, {'tasks': len(tasks), 'tasks_run': len(sel)}


def main(argv=None):
    ap = argparse.ArgumentParser()
    ap.add_argument('prop')
    ap.add_argument('--tier', default=os.environ.get('VERIF_TIER', 'quick'), choices=['quick', 'thorough'])
    ap.add_argument('--replay')
    ap.add_argument('--axis', default='')
    ap.add_argument('--axis-out')
    ap.add_argument('--axis-case')
    args = ap.parse_args(argv)
    try:
        seed = int(os.environ.get('VERIF_SEED', '0') or 0)
    except ValueError:
        seed = 0
    prop = args.prop.upper()
    t0 = time.time()
    core._TIER['tier'] = args.tier
    if args.axis:
        if core.AXIS != args.axis or (args.axis == 'opt') != (not __debug__):
            print('BROKEN-CHECK property=%s: axis %r not in force in this interpreter' % (prop, args.axis))
            return 2
    core.quiet_library()
    try:
        mod = importlib.import_module('vf.checks.' + prop.lower())
        import cardutil
        if not os.path.abspath(cardutil.__file__).startswith(os.path.abspath(core.REPO) + os.sep):
            raise core.Broken('cardutil imported from %s, not from %s' % (cardutil.__file__, core.REPO))
        # the whole library is imported here, in the main thread of the parent, as an application does at its top:
        # pool workers and (on the 'thread' axis) non-main threads then find it already imported by another thread
        for name in ('iso8583', 'mciipm', 'card', 'key', 'pinblock', 'config', 'BitArray', 'cli', 'cli.mideu',
                     'cli.paramconv', 'cli.mci_ipm_encode', 'cli.mci_ipm_param_encode', 'cli.mci_ipm_to_csv',
                     'cli.mci_csv_to_ipm', 'cli.mci_ipm_param_to_csv'):
            importlib.import_module('cardutil.' + name)

        if args.axis and args.axis_out:
            # child of a run on an environment axis: a slice of the tasks (or one case), result pickled for the parent
            try:
                if args.axis_case:
                    acc = core.call_on_axis(lambda c: replay_in_process(mod, prop, c), json.load(open(args.axis_case)))
                    if acc is None:
                        acc = core.Acc()
                else:
                    core.SELECT = (axis_stride(args.tier), seed % axis_stride(args.tier))
                    acc, _, _ = main_pass(mod, prop, args.tier, seed)
            except core.TaskHang as ex:
                acc = core.Acc()
                acc.viol(prop.lower() + '.no_termination', {'whole_axis_run': True}, str(ex),
                         'every task completes', 'a task outside the per-task wrapper ran into the CPU watchdog')
            with open(args.axis_out, 'wb') as f:
                pickle.dump(acc, f)
            return 0

        if args.replay:
            import signal
            rec = json.load(open(args.replay))
            case = rec.get('case')
            if isinstance(case, dict) and case.get('axis') and not args.axis:
                # the case failed on an environment axis: re-create it in a fresh interpreter
                axis = case['axis']
                cmd = [sys.executable] + (['-O'] if axis == 'opt' else []) + \
                      ['-m', 'vf.run', prop, '--tier', args.tier, '--axis', axis, '--replay', args.replay]
                sys.stdout.flush()
                os.execve(sys.executable, cmd, dict(os.environ, VERIF_AXIS=axis, **core.AXIS_ENV.get(axis, {})))
            if isinstance(case, dict) and case.get('axis'):
                inner = case['case']
                if case.get('worker_sequence'):
                    inner = dict(inner, worker_sequence=True)
                case = inner
            signal.signal(signal.SIGPROF, core._on_prof)
            signal.setitimer(signal.ITIMER_PROF, core.task_cpu_limit(args.tier))
            if case is None or (isinstance(case, dict) and case.get('whole_axis_run')):
                print('this replay file records a whole-check time-out; re-run: %s' % rec.get('replay_cmd'))
                return 1
            acc = core.call_on_axis(lambda c: replay_in_process(mod, prop, c), case)
            if acc is not None and acc.violations:
                for sig, (n, det) in sorted(acc.violations.items()):
                    print('VIOLATION property=%s replay=%s' % (prop, args.replay))
                    print('  sig=%s observed=%s expected=%s note=%s' % (
                        sig + ('@' + args.axis if args.axis else ''), det[0]['observed'], det[0]['expected'],
                        det[0]['note']))
                return 1
            print('replay: case passes on the current tree')
            return 0

        if hasattr(mod, 'selfcheck'):
            mod.selfcheck()
        acc, desc, extra = main_pass(mod, prop, args.tier, seed)

        # environment axes: a slice of the same tasks in a child interpreter per axis
        axes = {}
        if not os.environ.get('VERIF_NO_AXES'):
            for axis in core.AXES + tuple(getattr(mod, 'EXTRA_AXES', ())):
                stride = axis_stride(args.tier, axis)
                ta = time.time()
                child = axis_child(prop, args.tier, seed, axis)
                axes[axis] = {'what': AXIS_TEXT[axis], 'evaluations': child.evaluations,
                              'task_slice': 'every task' if hasattr(mod, 'run') and not hasattr(mod, 'tasks')
                              else 'tasks i with i mod %d == %d' % (stride, seed % stride),
                              'violations': sum(v[0] for v in child.violations.values()),
                              'wall_s': round(time.time() - ta, 1)}
                acc.count('axis_%s_evaluations' % axis, child.evaluations)
                for sig, v in child.violations.items():
                    acc.violations[sig] = v
            extra['environment_axes'] = axes

        def replay(case):
            if isinstance(case, dict) and case.get('axis'):
                inner = case['case']
                if case.get('worker_sequence'):
                    inner = dict(inner, worker_sequence=True)
                tier = inner.get('tier', args.tier) if isinstance(inner, dict) else args.tier
                return axis_child(prop, tier, seed, case['axis'], case=inner)
            return replay_in_process(mod, prop, case)

        def sequence(seq):
            if isinstance(seq, dict) and seq.get('axis'):
                return replay(dict(seq, worker_sequence=True))
            return worker_sequence(mod, prop, seq)
        return core.finish(mod, args.tier, seed, acc, desc, t0, replay_fn=replay, extra_cov=extra,
                           sequence_fn=sequence)
    except core.TaskTimeout:
        print('VIOLATION property=%s replay=%s' % (prop, args.replay))
        print('  sig=%s.no_termination observed=the replayed case did not finish within the CPU limit' % prop.lower())
        return 1
    except core.TaskHang as ex:
        # a task outside the per-task wrapper (BFS expansion) ran into the CPU watchdog: the code under test loops
        os.makedirs(os.path.join(core.VERIF, 'replays'), exist_ok=True)
        path = os.path.join(core.VERIF, 'replays', '%s-hang.json' % prop)
        with open(path, 'w') as f:
            json.dump({'property': prop, 'sig': prop.lower() + '.no_termination', 'tier': args.tier, 'seed': seed,
                       'observed': str(ex), 'replay_cmd': './check %s --tier %s' % (prop, args.tier)}, f, indent=1)
        print('VIOLATION property=%s replay=%s' % (prop, path))
        print('  sig=%s.no_termination observed=%s' % (prop.lower(), ex))
        return 1
    except core.Broken as ex:
        print('BROKEN-CHECK property=%s: %s' % (prop, ex))
        return 2
    except Exception:
        print('BROKEN-CHECK property=%s: unexpected checker error' % prop)
        traceback.print_exc()
        return 2


if __name__ == '__main__':
    sys.exit(main())
