"""setup_cmd: nothing to build (pure Python); verify the tool chain and the reference models' known answers."""
import importlib
import sys


def main():
    import cardutil  # noqa
    from vf import core  # noqa
    n = 0
    for name in ('luhn_ref', 'des_ref', 'aes_ref', 'iso_ref', 'vbs_ref', 'blk_ref', 'pin_ref', 'pvv_ref'):
        try:
            m = importlib.import_module('vf.ref.' + name)
        except ImportError:
            continue
        if hasattr(m, 'selfcheck'):
            m.selfcheck()
        n += 1
    print('vf selftest ok: python %s, cardutil from %s, %d reference models' % (
        sys.version.split()[0], cardutil.__file__, n))


if __name__ == '__main__':
    main()
