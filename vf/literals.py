"""String / number literals harvested from the library source under test (a fuzzing dictionary, built with ast):
a comparison against a magic value - a sentinel cell text, a card-number prefix, a special length - can only be
reached by an input that contains that value, and the value is in the code. Harvesting is white-box on purpose; the
checks then judge the results by the same black-box oracles as for every other input."""
import ast
import os

from vf import core

SENTINELS = ['\\N', 'NULL', 'null', 'None', 'nan', 'NaN', 'N/A', '#N/A', 'n/a', 'TRUE', 'False', '-', '--', '.', '0',
             '00', '\\', "''", '""', 'nil', 'undefined', '(null)', '<NA>', '?']

_CACHE = {}


def harvest():
    """-> {'text': [...], 'digits': [...]} from every module of the library except the vendored hexdump and the big
    configuration table"""
    if 'v' in _CACHE:
        return _CACHE['v']
    root = os.path.join(core.REPO, 'cardutil')
    text, digits = set(), set()
    for d, _, files in os.walk(root):
        if os.sep + 'vendor' in d:
            continue
        for fn in files:
            if not fn.endswith('.py') or fn == 'config.py':
                continue
            try:
                tree = ast.parse(open(os.path.join(d, fn), encoding='utf-8').read())
            except (SyntaxError, OSError):
                continue
            doc = set()
            for node in ast.walk(tree):
                if isinstance(node, (ast.Module, ast.ClassDef, ast.FunctionDef, ast.AsyncFunctionDef)):
                    b = node.body
                    if b and isinstance(b[0], ast.Expr) and isinstance(getattr(b[0], 'value', None), ast.Constant):
                        doc.add(id(b[0].value))
            for node in ast.walk(tree):
                if not isinstance(node, ast.Constant) or id(node) in doc:
                    continue
                v = node.value
                if isinstance(v, bytes):
                    try:
                        v = v.decode('latin_1')
                    except Exception:
                        continue
                if isinstance(v, bool):
                    continue
                if isinstance(v, int) and 10 <= v < 10 ** 19:
                    digits.add(str(v))
                if isinstance(v, str) and 1 <= len(v) <= 24 and '\n' not in v:
                    text.add(v)
                    ds = ''.join(c for c in v if c in '0123456789')
                    if len(ds) >= 2 and len(ds) == len(v.replace(' ', '').replace('-', '')):
                        digits.add(ds)
    _CACHE['v'] = {'text': sorted(text), 'digits': sorted(digits)}
    return _CACHE['v']


def cell_texts(limit=20):
    """sentinel-like and harvested texts usable as a CSV cell / an element value (printable ASCII, no leading or
    trailing blanks, at most `limit` characters)"""
    out = []
    for t in SENTINELS + harvest()['text']:
        if t and len(t) <= limit and t == t.strip() and all(32 <= ord(c) < 127 for c in t) and t not in out:
            out.append(t)
    return out
