#!/bin/sh
# tools/run_all.sh [tier] [seed...] : run every check, print one line each, fail if any is not silent
TIER="${1:-quick}"; shift
SEEDS="${*:-0}"
rc=0
for seed in $SEEDS; do
  for i in 01 02 03 04 05 06 07 08 09 10 11 12 13 14 15 16 17 18 19 20; do
    out=$(VERIF_SEED=$seed /verif/check C$i --tier "$TIER" 2>&1); st=$?
    echo "$out" | grep -E "VIOLATION|BROKEN|KNOWN-FINDING" | cut -c1-200
    echo "seed=$seed exit=$st $(echo "$out" | tail -1 | cut -c1-170)"
    [ $st -ne 0 ] && rc=1
  done
done
/verif/tools/validate_evidence.sh | grep -v '^ok'
exit $rc
