#!/bin/sh
# validates every /verif/evidence/*.json against the evidence schema
python3-vt - <<'PY'
import glob, json, jsonschema, sys
s = json.load(open('/root/.vp/EVIDENCE.schema.json'))
bad = 0
for p in sorted(glob.glob('/verif/evidence/*.json')):
    try:
        jsonschema.validate(json.load(open(p)), s)
        print('ok  ', p)
    except Exception as ex:
        bad += 1
        print('BAD ', p, str(ex)[:300])
sys.exit(1 if bad else 0)
PY
