#!/bin/sh
# tools/mutant.sh '<sed expr>' <file under cardutil/> <check ids...>
# copies /repo to a scratch dir, applies the sed edit, runs the repo tests and the named quick checks against the copy
EXPR="$1"; FILE="$2"; shift 2
D=$(mktemp -d /tmp/mut.XXXXXX)
cp -r /repo/cardutil /repo/tests /repo/setup.cfg /repo/pyproject.toml "$D"/ 2>/dev/null
cp "$D/$FILE" "$D/$FILE.orig"
sed -i "$EXPR" "$D/$FILE"
if cmp -s "$D/$FILE" "$D/$FILE.orig"; then echo "MUTANT DID NOT CHANGE THE FILE"; rm -rf "$D"; exit 3; fi
diff "$D/$FILE.orig" "$D/$FILE" | head -8
rm "$D/$FILE.orig"
(cd "$D" && PYTHONPATH="$D" /venv/bin/python -m pytest -q -p no:cacheprovider -x 2>&1 | tail -1)
for c in "$@"; do
  VERIF_REPO="$D" /verif/check "$c" --tier "${TIER:-quick}" | grep -E "VIOLATION|BROKEN|sig=|tier=" | cut -c1-260 | head -6
done
rm -rf "$D"
