#!/venv/bin/python
"""tools/thorough_table.py <log of tools/run_all.sh thorough ...> : prints the markdown table of DESIGN.md section 7a"""
import re
import sys

rows = []
tot = 0.0
for line in open(sys.argv[1]):
    m = re.search(r'exit=(\d+) (C\d\d) tier=(\w+) seed=(\d+) level=(\w+) evaluations=(\d+) distinct_nontrivial=(\d+) '
                  r'states=(\d+) transitions=(\d+) outcomes=\d+ violations=(\d+) wall=([\d.]+)s', line)
    if not m:
        continue
    ex, cid, tier, seed, level, ev, dn, st, tr, vi, wall = m.groups()
    fmt = lambda x: '{:,}'.format(int(x)) if int(x) else '-'   # noqa
    rows.append('| %s | %s | %s | %s | %s | %s | %s | %s s |' % (cid, level, fmt(ev), fmt(dn), fmt(st), fmt(tr), vi, wall))
    tot += float(wall)
print('| check | level | evaluations | distinct non-trivial | states | transitions | violations | wall (16 cores) |')
print('|---|---|---|---|---|---|---|---|')
print('\n'.join(rows))
print('\ntotal wall: %.0f s (%.0f min)' % (tot, tot / 60))
