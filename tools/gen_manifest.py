#!/venv/bin/python
"""Regenerates /verif/MANIFEST.json from the table below and validates it against the schema."""
import json
import os
import subprocess
import sys

HERE = os.path.dirname(os.path.dirname(os.path.abspath(__file__)))
sys.path.insert(0, HERE)
from tools.manifest_data import CHECKS, NOT_APPLICABLE, ENGINES, NOTES  # noqa

BASE = ("cd /repo && /venv/bin/python -m pytest -ra -q -p no:cacheprovider --timeout=900 "
        "--continue-on-collection-errors")

manifest = {
    'version': 1,
    'setup_cmd': 'cd /verif && PYTHONPATH=/repo:/verif PYTHONDONTWRITEBYTECODE=1 /venv/bin/python -m vf.selftest',
    'hooks': {
        'guard': 'CARDUTIL_VERIF',
        'enable': 'no hooks exist: every observation is made through the public API, returned values, exceptions '
                  'and the bytes of file objects the harness owns; the guard name is reserved and unused',
        'baseline_off_cmd': BASE,
        'source_commits': [],
        'add_only': True,
    },
    'engines': ENGINES,
    'checks': [],
    'notes': NOTES,
    'not_applicable': NOT_APPLICABLE,
}
for c in CHECKS:
    pid = c['id']
    manifest['checks'].append({
        'property_id': pid,
        'quick_cmd': './check %s --tier quick' % pid,
        'thorough_cmd': './check %s --tier thorough' % pid,
        'evidence_file': '/verif/evidence/%s.json' % pid,
        'replay_cmd_template': './check %s --replay {path}' % pid,
        'engine': c['engine'],
        'level_claimed': {'category': c['level'], 'text': c['text'], 'design_ref': c['design_ref']},
        'level_note': c['note'],
        'technique': c['technique'],
    })
out = os.path.join(HERE, 'MANIFEST.json')
with open(out, 'w') as f:
    json.dump(manifest, f, indent=1)
    f.write('\n')
code = ("import json,jsonschema;jsonschema.validate(json.load(open('%s')),"
        "json.load(open('/root/.vp/MANIFEST.schema.json')));print('MANIFEST valid: %d checks, %d not_applicable')"
        % (out, len(manifest['checks']), len(manifest['not_applicable'])))
sys.exit(subprocess.call(['python3-vt', '-c', code]))
