ENGINES = [
    {'name': 'E1-bfs', 'path': 'vf/engine/bfs.py', 'serves_properties': ['C04', 'C05', 'C11'],
     'kind_free_text': 'explicit-state breadth-first search whose transition function is the real object '
                       '(history replay on fresh objects, canonical state keys, two representative histories per '
                       'state as a differential oracle)'},
    {'name': 'E2-choice', 'path': 'vf/engine/choice.py',
     'serves_properties': ['C01', 'C02', 'C03', 'C12', 'C13', 'C14', 'C15', 'C16', 'C17', 'C18', 'C19', 'C20'],
     'kind_free_text': 'stateless exhaustive enumeration of finite choice trees / input spaces with deviation '
                       'bounding, judged against reference models written from the documentation'},
    {'name': 'E3-sched', 'path': 'vf/engine/sched.py', 'serves_properties': ['C06'],
     'kind_free_text': 'operation-level interleaving enumeration and line-level preemption-bounded schedule '
                       'exploration of real threads under a baton scheduler'},
    {'name': 'E4-faults', 'path': 'vf/engine/faults.py', 'serves_properties': ['C05', 'C07', 'C08', 'C09', 'C10'],
     'kind_free_text': 'exhaustive fault / crash-point enumeration (every truncation offset, every single-byte '
                       'substitution at structural positions, pairs over an alphabet) under a CPU-time watchdog'},
]

NOTES = ('All checks run the real cardutil code from /repo\'s working tree (PYTHONPATH=/repo first); no hooks. '
         'Deciding step everywhere: exhaustive enumeration of a stated bounded space; see DESIGN.md.')

_PENDING = 'check not built yet in this session (planned: DESIGN.md section 4); not claimed until it exists'

CHECKS = [
    {'id': 'C01', 'engine': 'E2-choice', 'level': 'exploration', 'design_ref': 'DESIGN.md 4/C01',
     'technique': 'bounded exhaustive enumeration (every element x every length/value variant, all element pairs, '
                  'structured long messages) of the real dumps/loads with a round-trip oracle',
     'text': 'Every configured element alone at every admissible length (1..99 / 1..999) and value variant, every '
             'pair of elements at boundary variants, and long-message families are executed through the real '
             'dumps/loads for the packaged and generated configurations (every bit carries every field kind over '
             'the 14 shifts), ASCII- and EBCDIC-family codecs and both bitmap renderings. Exhaustive within the '
             'stated families, which cover each way a field rendering or a neighbour boundary can go wrong.',
     'note': 'Subsets beyond singles, pairs and the long families are not enumerated. Domain exclusions listed in '
             'the evidence assumptions.'},
    {'id': 'C02', 'engine': 'E2-choice', 'level': 'exploration', 'design_ref': 'DESIGN.md 4/C02',
     'technique': 'bounded exhaustive enumeration of messages compared byte-for-byte and key-for-key with an '
                  'independent reference codec (conformance of implementation to a model, all cases replayed on the '
                  'implementation)',
     'text': 'Same enumerated families as C01 plus short fixed values and over-length variable values; dumps must be '
             'byte-identical to the reference encoder, loads key-for-key equal to the reference decoder, over-length '
             'values refused. Catches symmetric errors a round trip cannot see.',
     'note': 'Trusts vf/ref/iso_ref.py (written from the docs, self-checked on the documented examples).'},
    {'id': 'C03', 'engine': 'E2-choice', 'level': 'exploration', 'design_ref': 'DESIGN.md 4/C03',
     'technique': 'bounded exhaustive enumeration of record lists (every single length 1..6000, all pairs/triples '
                  'over a boundary alphabet) through the real writer/reader vs reference framing',
     'text': 'Every record length 1..6000 as a single-record file, all ordered pairs over a 39-length and triples '
             'over a 12-length block-boundary alphabet, long runs, five content codings, three APIs, blocked and '
             'unblocked, several configured maxima: file bytes must equal the reference framing exactly and read '
             'back equal.',
     'note': 'Trusts vbs_ref/blk_ref. Lists longer than 3 records only as stated runs (thorough adds 4-tuples).'},
    {'id': 'C09', 'engine': 'E4-faults', 'level': 'fault_enumeration', 'design_ref': 'DESIGN.md 4/C09',
     'technique': 'exhaustive crash-point enumeration: every truncation offset of every file of a boundary family, '
                  'executed on the real readers',
     'text': 'For ~190 generated VBS / blocked / IPM files (record lengths around block boundaries, fill- and '
             'terminator-like content) every truncation offset 0..len(file) is executed; the reader must deliver '
             'exactly the records wholly contained in the surviving payload and then stop or raise the library '
             'error.',
     'note': 'Expected set computed by the reference parser on the surviving payload.'},
    {'id': 'C11', 'engine': 'E1-bfs', 'level': 'model_checking', 'design_ref': 'DESIGN.md 4/C11',
     'technique': 'explicit-state BFS over writer lifecycle histories (write* then close/exit sequences) on the real '
                  'VbsWriter/IpmWriter, BytesIO and real files',
     'text': 'All histories write^<=3 (4 record sizes incl. block-boundary ones) followed by up to 3 finalisations '
             'from {close, exit, exit-with-exception} for both writers, both formats, three file kinds; states '
             'deduplicated on file digest + all writer/blocker attributes; after every finalisation the file must '
             'read back (reference parser and real reader) as exactly the records written and later finalisations '
             'must not change a byte.',
     'note': 'Writes after finalisation are outside the statement. Thorough: 4 writes / 4 finalisations.'},
    {'id': 'C04', 'engine': 'E1-bfs', 'level': 'model_checking', 'design_ref': 'DESIGN.md 4/C04',
     'technique': 'explicit-state BFS over the real Block1014 object: all 1013 abstract states x every write size, '
                  'finalised output compared with a reference blocker',
     'text': 'All reachable abstract states of the streaming blocker (payload residue mod 1012, trailer '
             'pending/written, every instance attribute) are enumerated by BFS on the real object; from each state '
             'every write size 0..3040 (thorough) or 0..1016 plus boundary-relative sizes (quick) is executed from '
             'two different representative histories and the finalised file is compared byte-for-byte with the '
             'reference blocking of the bytes written. Because every (state, size) pair is executed, every write '
             'history with writes up to that size is covered, not just a depth.',
     'note': 'Trusts blk_ref (15 lines). State abstraction is checked by expanding every state from two histories; a '
             'mismatch withdraws the exhaustive claim. Writes above 10000 bytes are not explored.'},
    {'id': 'C05', 'engine': 'E1-bfs', 'level': 'model_checking', 'design_ref': 'DESIGN.md 4/C05',
     'technique': 'explicit-state BFS over the real Unblock1014 object (all read histories) plus exhaustive '
                  'truncation / trailer-corruption enumeration for unblock_1014',
     'text': 'BFS over (blocks in file, file position, buffered bytes, attributes, bytes delivered) for inputs of '
             '0..3 (quick) / 0..4 (thorough) blocks; from every state every read size 1..2024 (thorough) or a '
             'boundary-relative menu (quick) and read() with no size are executed on the real object and must return '
             'the next slice of the payload stream. One-shot unblocker: inverse of block_1014 for every length, every '
             'truncation length 0..3042 and every value of all six trailer bytes refused. Blocked vs unblocked '
             'record reading on all pairs of a 27-length boundary alphabet.',
     'note': 'read(0) excluded (indistinguishable from "no size"). Inputs are whole blocks; read sizes above two '
             'blocks repeat the same refill loop.'},
    {'id': 'C15', 'engine': 'E2-choice', 'level': 'exploration', 'design_ref': 'DESIGN.md 4/C15',
     'technique': 'bounded exhaustive enumeration of all digit strings (model checking of a pure function over a '
                  'complete finite input space) in normal and -O interpreter modes',
     'text': 'Every digit string up to length 5 (quick) / 7 (thorough) is enumerated: check digit equals a reference '
             'Luhn, appended digit validates, and every single-digit substitution / admissible adjacent transposition '
             'is rejected; lengths 8..40 by 1- and 2-position deviation closure with separators. The validate half '
             'is repeated under python -O. Exhaustive below the bound, so boundary faults (sum multiple of 10, odd '
             'length) cannot hide.',
     'note': 'Trusts the 20-line reference Luhn (self-checked on published numbers). Strings longer than the '
             'exhaustive bound are covered only by the deviation closure.'},
]

NOT_APPLICABLE = [{'property_id': 'C%02d' % i, 'reason': _PENDING}
                  for i in range(1, 21) if 'C%02d' % i not in {c['id'] for c in CHECKS}]
