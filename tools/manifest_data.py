ENGINES = [
    {'name': 'E1-bfs', 'path': 'vf/engine/bfs.py', 'serves_properties': ['C04', 'C05', 'C11'],
     'kind_free_text': 'explicit-state breadth-first search whose transition function is the real object '
                       '(history replay on fresh objects, canonical state keys, two representative histories per '
                       'state as a differential oracle)'},
    {'name': 'E2-choice', 'path': 'vf/core.py',
     'serves_properties': ['C01', 'C02', 'C03', 'C12', 'C13', 'C14', 'C15', 'C16', 'C17', 'C18', 'C19', 'C20'],
     'kind_free_text': 'stateless exhaustive enumeration of finite choice trees / input spaces with deviation '
                       'bounding, judged against reference models written from the documentation'},
    {'name': 'E3-sched', 'path': 'vf/engine/sched.py', 'serves_properties': ['C06'],
     'kind_free_text': 'operation-level interleaving enumeration and line-level preemption-bounded schedule '
                       'exploration of real threads under a baton scheduler'},
    {'name': 'E4-faults', 'path': 'vf/engine/faults.py', 'serves_properties': ['C05', 'C07', 'C08', 'C09', 'C10'],
     'kind_free_text': 'exhaustive fault / crash-point enumeration (every truncation offset, every single-byte '
                       'substitution at structural positions, pairs over an alphabet) under a CPU-time watchdog'},
]

NOTES = ('All checks run the real cardutil code from /repo\'s working tree (PYTHONPATH=/repo first); no hooks. '
         'Deciding step everywhere: exhaustive enumeration of a stated bounded space; see DESIGN.md. After its main '
         'pass every check re-runs a slice of the same tasks in child interpreters on environment axes (python -O, '
         'library DEBUG logging, a daylight-saving time zone, a non-main calling thread; C20 also without '
         'python-dateutil); a case failing only there is reported with an @<axis> signature. Beside data (lengths, '
         'values, contents, faults) the checks vary dimensions of use: kinds of file object, sizes beyond 1 MiB, '
         'configuration handling (explicit, edited in place, replaced package default, Mapping types, key order), '
         'calling conventions and argument types, one object asked several questions, out-of-domain calls before '
         'valid ones, string literals harvested from the library source as inputs (DESIGN.md 0a, 7b).')

_PENDING = 'check not built yet in this session (planned: DESIGN.md section 4); not claimed until it exists'

CHECKS = [
    {'id': 'C01', 'engine': 'E2-choice', 'level': 'exploration', 'design_ref': 'DESIGN.md 4/C01',
     'technique': 'bounded exhaustive enumeration (every element x every length/value variant, all element pairs, '
                  'structured long messages) of the real dumps/loads with a round-trip oracle',
     'text': 'Every configured element alone at every admissible length (1..99 / 1..999) and value variant (incl. content '
             'that looks like padding / absence / structure, non-ASCII single-byte characters, numbers up to 99 '
             'digits, every year of the two-digit window), every pair of elements at boundary variants (thorough: '
             'triples), long-message families, and sequences (other library uses before the call, A/B/A alternation '
             'of configurations / codecs / bitmaps, one configuration object edited in place) are executed through '
             'the real dumps/loads for the packaged and generated configurations (also with non-ascending key '
             'order), ASCII- and EBCDIC-family codecs and both bitmap renderings.',
     'note': 'Subsets beyond singles, pairs and the long families are not enumerated. Domain exclusions listed in '
             'the evidence assumptions.'},
    {'id': 'C02', 'engine': 'E2-choice', 'level': 'exploration', 'design_ref': 'DESIGN.md 4/C02',
     'technique': 'bounded exhaustive enumeration of messages compared byte-for-byte and key-for-key with an '
                  'independent reference codec (conformance of implementation to a model, all cases replayed on the '
                  'implementation)',
     'text': 'Same enumerated families as C01 plus short fixed values and over-length variable values; dumps must be '
             'byte-identical to the reference encoder, loads key-for-key equal to the reference decoder, over-length '
             'values refused. Catches symmetric errors a round trip cannot see.',
     'note': 'Trusts vf/ref/iso_ref.py (written from the docs, self-checked on the documented examples).'},
    {'id': 'C03', 'engine': 'E2-choice', 'level': 'exploration', 'design_ref': 'DESIGN.md 4/C03',
     'technique': 'bounded exhaustive enumeration of record lists (every single length 1..6000, all pairs/triples '
                  'over a boundary alphabet) through the real writer/reader vs reference framing',
     'text': 'Every record length 1..6000 as a single-record file, all ordered pairs over a 39-length and triples '
             'over a 12-length block-boundary alphabet, long runs, five content codings, three APIs, blocked and '
             'unblocked, several configured maxima: file bytes must equal the reference framing exactly and read '
             'back equal.',
     'note': 'Trusts vbs_ref/blk_ref. Lists longer than 3 records only as stated runs (thorough adds 4-tuples).'},
    {'id': 'C09', 'engine': 'E4-faults', 'level': 'fault_enumeration', 'design_ref': 'DESIGN.md 4/C09',
     'technique': 'exhaustive crash-point enumeration: every truncation offset of every file of a boundary family, '
                  'executed on the real readers',
     'text': 'For ~190 generated VBS / blocked / IPM files (record lengths around block boundaries, fill- and '
             'terminator-like content) every truncation offset 0..len(file) is executed; the reader must deliver '
             'exactly the records wholly contained in the surviving payload and then stop or raise the library '
             'error.',
     'note': 'Expected set computed by the reference parser on the surviving payload.'},
    {'id': 'C11', 'engine': 'E1-bfs', 'level': 'model_checking', 'design_ref': 'DESIGN.md 4/C11',
     'technique': 'explicit-state BFS over writer lifecycle histories (write* then close/exit sequences) on the real '
                  'VbsWriter/IpmWriter, BytesIO and real files',
     'text': 'All histories write^<=2 (quick) / <=3 (thorough) over 6 record kinds (block-boundary sizes, records ending '
             'in four NUL bytes) followed by up to 3 / 4 finalisations from {close, exit, exit-with-exception}, with '
             '__enter__ and 300 unrelated writers finalised in between as further operations, for both writers, '
             'both formats, three file kinds; states deduplicated on file digest + all writer/blocker attributes + '
             'the operations that must not matter; after every finalisation the file must read back (reference '
             'parser and real reader) as exactly the records written and later finalisations must not change a byte.',
     'note': 'Writes after finalisation are outside the statement; presence of the zero-length terminator is judged by C03.'},
    {'id': 'C04', 'engine': 'E1-bfs', 'level': 'model_checking', 'design_ref': 'DESIGN.md 4/C04',
     'technique': 'explicit-state BFS over the real Block1014 object: all 1013 abstract states x every write size, '
                  'finalised output compared with a reference blocker',
     'text': 'All reachable abstract states of the streaming blocker (payload residue mod 1012, trailer '
             'pending/written, every instance attribute) are enumerated by BFS on the real object; from each state '
             'every write size 0..3040 (thorough) or 0..1016 plus boundary-relative sizes (quick) is executed from '
             'two different representative histories and the finalised file is compared byte-for-byte with the '
             'reference blocking of the bytes written (four content codings; large single writes 8191..20001, thorough '
             '39000, from every state; one-shot block_1014 for every length). Because every (state, size) pair is executed, every write '
             'history with writes up to that size is covered, not just a depth.',
     'note': 'Trusts blk_ref (15 lines). State abstraction is checked by expanding every state from two histories; a '
             'mismatch withdraws the exhaustive claim. Writes above 10000 bytes are not explored.'},
    {'id': 'C05', 'engine': 'E1-bfs', 'level': 'model_checking', 'design_ref': 'DESIGN.md 4/C05',
     'technique': 'explicit-state BFS over the real Unblock1014 object (all read histories) plus exhaustive '
                  'truncation / trailer-corruption enumeration for unblock_1014',
     'text': 'BFS over (blocks in file, file position, buffered bytes, attributes, bytes delivered) for inputs of '
             '0..3 (quick) / 0..4 (thorough) blocks; from every state every read size 1..2024 (thorough) or a '
             'boundary-relative menu (quick) and read() with no size are executed on the real object and must return '
             'the next slice of the payload stream. One-shot unblocker: inverse of block_1014 for every length, every '
             'truncation length 0..3042 and every value of all six trailer bytes refused. Blocked vs unblocked '
             'record reading on all pairs of a 27-length boundary alphabet; two unblockers on different files with '
             'their reads interleaved in every order.',
     'note': 'read(0) excluded (indistinguishable from "no size"). Inputs are whole blocks; read sizes above two '
             'blocks repeat the same refill loop.'},
    {'id': 'C15', 'engine': 'E2-choice', 'level': 'exploration', 'design_ref': 'DESIGN.md 4/C15',
     'technique': 'bounded exhaustive enumeration of all digit strings (model checking of a pure function over a '
                  'complete finite input space) in normal and -O interpreter modes',
     'text': 'Every digit string up to length 5 (quick) / 7 (thorough) is enumerated: check digit equals a reference '
             'Luhn, appended digit validates, and every single-digit substitution / admissible adjacent transposition '
             'is rejected; lengths 8..40 by 1- and 2-position deviation closure with separators. The validate half '
             'is repeated under python -O. Exhaustive below the bound, so boundary faults (sum multiple of 10, odd '
             'length) cannot hide.',
     'note': 'Trusts the 20-line reference Luhn (self-checked on published numbers). Strings longer than the '
             'exhaustive bound are covered only by the deviation closure.'},
    {'id': 'C06', 'engine': 'E3-sched', 'level': 'model_checking', 'design_ref': 'DESIGN.md 4/C06',
     'technique': 'stateless schedule exploration on the real code: all operation-level merges of 4 instances and '
                  'preemption-bounded line-level interleavings of two real threads under a controlled scheduler; '
                  'plus exhaustive round-trip enumeration over message-shape sequences',
     'text': 'Round trip over every sequence of length 1..3 of 8 message shapes and long cyclic files in 4 codecs, '
             'both formats, packaged and custom configuration. Isolation: all 2520 merges of two operations each of 2 '
             'writers + 2 readers, switch-bounded merges of three operations each, and every placement of <=1 (quick) '
             '/ <=2 (thorough) preemptions at cardutil line events for the pairs next||next, write||write, write||next, '
             'dumps||loads; every instance must observe exactly what it observes in a solo run. Round trips also under one '
             'custom configuration object edited in place between files.',
     'note': 'Line granularity, not bytecode granularity; two threads; preemption bound 1 (quick) / 2 (thorough).'},
    {'id': 'C07', 'engine': 'E4-faults', 'level': 'fault_enumeration', 'design_ref': 'DESIGN.md 4/C07',
     'technique': 'exhaustive fault enumeration (0, 1, 2 byte deviations, numeral closure, short-string closure) '
                  'against the real decoder and readers under a CPU-time watchdog',
     'text': 'Corpus of reference-encoded messages and files x every truncation, every byte value at every structural '
             'position (all positions in thorough), insert/delete, pairs of structural positions, every string over an '
             '11-value alphabet in every length numeral, and every string of length <=3 (quick) / <=5 (thorough) over 8 '
             'symbols after a single-bit header for every configured bit: loads must return a dict or raise the '
             'library error, readers must stop or raise MciIpmDataError, and the watchdog must never fire; also with the '
             'configuration entry of a flagged element removed / restored / retyped in place between decodes, with '
             'every contiguous stretch of every variable-length content removed and the prefix re-declared (well '
             'framed, unusual content), and through the command-line tools (diagnostic instead of traceback).',
     'note': 'Mutation depth above 2 (3 inside one numeral) is not explored; random byte strings are not sampled.'},
    {'id': 'C08', 'engine': 'E4-faults', 'level': 'fault_enumeration', 'design_ref': 'DESIGN.md 4/C08',
     'technique': 'exhaustive fault enumeration near the valid language judged by a re-tiling oracle and an independent '
                  'strict reference decoder',
     'text': 'C07 mutation sets plus zero-length variable elements, bitmap bit flips, extensions, and the closure of '
             'short strings after one- and two-bit headers. Whenever loads returns, the message is re-tiled from the '
             'returned dict (prefix + declared bytes, value = own bytes, no overlap / gap / leftover, no negative '
             'length); whenever the strict reference accepts, loads must accept with the same dict. Also under alternating '
             'configurations, one configuration edited in place, maximum-length elements and two utf-8 messages.',
     'note': 'Numerals that are not plain ASCII digits and malformed PDS/ICC content are don\'t-cares for acceptance.'},
    {'id': 'C10', 'engine': 'E4-faults', 'level': 'fault_enumeration', 'design_ref': 'DESIGN.md 4/C10',
     'technique': 'exhaustive enumeration of (file size n, faulty position k, fault kind, format, codec) on the real '
                  'IpmReader',
     'text': 'Every n<=4 (6 thorough), every k, ten fault kinds incl. framing-level ones, plus every structural byte of '
             'record k x a 10-value alphabet in 3-record files: records before k delivered unchanged, then '
             'MciIpmDataError with record_number == k and the raw bytes of record k; operator message names record k; four '
             'reading styles (for loop, next then for, next only, fresh iter per record), eight oversized length values.',
     'note': 'Good records are reference-encoded; bad ones are single-point corruptions.'},
    {'id': 'C12', 'engine': 'E2-choice', 'level': 'exploration', 'design_ref': 'DESIGN.md 4/C12',
     'technique': 'exhaustive boundary sweep of PDS value-length pairs around the 999-character carrier cap on the '
                  'real encoder/decoder',
     'text': 'All 20k (l1,l2) pairs whose running carrier length falls in 985..1005, three-tag sweeps of the second '
             'boundary, zero-length values, header look-alike values, 1..5 full carriers, tag extremes, packaged and '
             'generated carrier placement. Carriers read independently from the dumps output must concatenate to the '
             'ascending tag4 len3 value stream, never exceed 999, never split a sub-element; loads returns the same set; '
             'also with the carrier set of one configuration object edited in place between calls.',
     'note': 'Greedy packing is not required (the statement does not require it); sets that fit greedily must encode.'},
    {'id': 'C13', 'engine': 'E2-choice', 'level': 'exploration', 'design_ref': 'DESIGN.md 4/C13',
     'technique': 'exhaustive enumeration over PIN length x PAN length with 1- and 2-position digit deviations, '
                  'compared with independent PIN-block, DES and AES references',
     'text': 'PIN length 4..12 x PAN length 13..19 crossed fully, four digit backgrounds, every position x every digit, '
             'pairs of positions, six fill values incl. none supplied (random source replaced by a counter), TDES '
             'double/triple and AES-128/192/256 keys: clear blocks equal the ISO 9564 construction, from_bytes returns '
             'the PIN, ciphertexts equal from-scratch FIPS 46-3 / FIPS 197 references and decrypt to the PIN; cipher mix-ins '
             'on chosen ciphertext patterns; valid calls after calls that must fail.',
     'note': 'Key / PIN / PAN value spaces are covered over the stated alphabets and deviation bound only.'},
    {'id': 'C14', 'engine': 'E2-choice', 'level': 'exploration', 'design_ref': 'DESIGN.md 4/C14',
     'technique': 'exhaustive enumeration over PIN length x PAN length x key index plus constructed decimalisation '
                  'vectors, compared with a from-scratch DES reference',
     'text': 'PVV for every PIN length 4..12 x PAN length 13..19 x key index 0..9 under 8/16/24-byte keys, 1-position '
             'deviations, and vectors constructed (by decrypting target ciphertexts) so that the second decimalisation '
             'scan supplies 0,1,2,3,4 digits; every ordered component list of length 1..3 over 5 components, encrypted '
             'zone keys under 3 master keys, KCV lengths 4/6/16; ordered sequences of lists sharing a component set, forwards '
             'and backwards, in one process.',
     'note': 'Components are double-length keys.'},
    {'id': 'C16', 'engine': 'E2-choice', 'level': 'exploration', 'design_ref': 'DESIGN.md 4/C16',
     'technique': 'exhaustive enumeration of mask() inputs and of PAN / PAN-PREFIX processor placements on every '
                  'variable-length element',
     'text': 'mask() for every length 10..40 x digits/text x every printable mask character; PAN and PAN-PREFIX on '
             'every LLVAR/LLLVAR element of the packaged and 4 (quick) / 14 (thorough) generated configurations x PAN '
             'lengths x codecs, alone and between neighbours, via loads and IpmReader: masked shape exact, clear PAN '
             'nowhere in the returned dict; unusual characters (line feed at every position) in card numbers; the processor '
             'of one configuration object edited in place between decodes.',
     'note': 'Non-disclosure judged from 11 characters up (a 10-character PAN has no middle).'},
    {'id': 'C17', 'engine': 'E2-choice', 'level': 'exploration', 'design_ref': 'DESIGN.md 4/C17',
     'technique': 'exhaustive enumeration of writer-produced files (first-record shape x codec x format x every block '
                  'count) and of the invalid classes with boundary values',
     'text': 'Files from the real IpmWriter for 46 first-record shapes x 6 codecs x VBS/1014 x every block count '
             '1..10 (14 thorough): valid, right encoding family, blocked recognised, unblocked not mistaken; lengths '
             '0..39, first length around the maximum under three configured maxima, each of the 83 unconfigured bits: '
             'invalid with a reason; trailer-probe byte combinations, every byte value inside the first blocks, the '
             'packaged configuration edited between inspections.',
     'note': 'Encoding family judged semantically (reported codec must decode the MTI digits).'},
    {'id': 'C18', 'engine': 'E2-choice', 'level': 'exploration', 'design_ref': 'DESIGN.md 4/C18',
     'technique': 'exhaustive enumeration of synthetic extract files (index assignments, row multisets and all their '
                  'interleavings, layouts, representations) against independent slicing',
     'text': 'All 120 assignments of look-alike sub-ids to the four configured tables, every multiset of 0..2 rows for '
             'every ordered pair of tables in EVERY interleaving, cyclic mixes with unconfigured tables, generated '
             'layouts, compressed and expanded, latin_1/cp500, VBS/1014, through the CSV tool (function, cli_run, argv); '
             'refusal cases; several readers in one process; a table under two sub-ids; identifier-like column text.',
     'note': 'Row layout taken from the reader documentation / configuration comments.'},
    {'id': 'C19', 'engine': 'E2-choice', 'level': 'exploration', 'design_ref': 'DESIGN.md 4/C19',
     'technique': 'exhaustive enumeration over files x ordered codec pairs x formats^2 x tools x entry points, outputs '
                  'read by the reference models, byte-exact return trip',
     'text': 'Writer-produced IPM files (7 shapes alone, all pairs, 5- and 40-record mixes) and arbitrary-byte parameter '
             'files through mci_ipm_encode, mideu convert, mci_ipm_param_encode, paramconv, every ordered pair of '
             '{latin_1, cp500, cp037}, {vbs,1014}^2, function / cli_run / argv entry points with and without -o; a shape made '
             'of every punctuation character, every ORDERED pair of shapes.',
     'note': 'Records compared through vf/ref, not through the library readers.'},
    {'id': 'C20', 'engine': 'E2-choice', 'level': 'exploration', 'design_ref': 'DESIGN.md 4/C20',
     'technique': 'exhaustive enumeration of CSV tables (column subsets x rows x value/metacharacter variants x codec x '
                  'format x entry point) through the real tools',
     'text': 'MTI + each single column x 21 value variants, MTI + every pair of columns, all columns (PDS columns or '
             'DE48), rows 1..3 with omitted cells, CSV metacharacters, three codecs, both formats, function and cli_run '
             'entry points (also argv with default names and a sorted-key JSON configuration file): same rows, same order, '
             'every supplied cell textually equal; every calendar day of a leap year; an alignment sweep over blocked files.',
     'note': 'Fixed text at exact width, canonical decimals, complete ISO stamps.'},
]

CHECKS.sort(key=lambda c: c['id'])
NOT_APPLICABLE = [{'property_id': 'C%02d' % i, 'reason': _PENDING}
                  for i in range(1, 21) if 'C%02d' % i not in {c['id'] for c in CHECKS}]
