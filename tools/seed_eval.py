#!/venv/bin/python
"""
tools/seed_eval.py <seed dir with patch.diff and demo.py> <name> <property> [checks...]
Confirms a seeded change independently and runs the quick checks against it:
  1. fresh scratch worktree of /repo HEAD, patch applied
  2. repository test suite on the patched tree must pass
  3. demo exits 1 on the patched tree and 0 on /repo
  4. every named quick check (default: all 20) is run with VERIF_REPO=<patched tree>
Writes /verif/seeded/<name>/{patch.diff,demo.py,meta.json}; removes the worktree.
"""
import json
import os
import shutil
import subprocess
import sys
import tempfile
import time

ALL = ['C%02d' % i for i in range(1, 21)]


def sh(cmd, **kw):
    return subprocess.run(cmd, shell=isinstance(cmd, str), capture_output=True, text=True, **kw)


def main():
    src, name, prop = sys.argv[1], sys.argv[2], sys.argv[3]
    checks = sys.argv[4:] or ALL
    if checks == ['auto']:
        # the checks whose property can be affected by the files the patch touches
        text = open(os.path.join(src, 'patch.diff')).read()
        rel = {prop}
        table = {'cardutil/iso8583.py': 'C01 C02 C06 C07 C08 C10 C12 C16 C19 C20', 'cardutil/BitArray.py': 'C01 C02 C06 C17',
                 'cardutil/config.py': 'C01 C02 C06 C12 C17 C18 C20', 'cardutil/mciipm.py': 'C03 C04 C05 C06 C09 C10 C11 C17 C18 C19 C20',
                 'cardutil/card.py': 'C15 C16', 'cardutil/pinblock.py': 'C13 C14', 'cardutil/key.py': 'C14',
                 'cardutil/cli/': 'C07 C18 C19 C20', 'cardutil/__init__.py': 'C07 C10'}
        for k, v in table.items():
            if ('a/' + k) in text:
                rel.update(v.split())
        checks = sorted(rel)
    wt = tempfile.mkdtemp(prefix='seedwt_', dir='/tmp')
    os.rmdir(wt)
    meta = {'name': name, 'property': prop, 'ran': []}
    try:
        r = sh(['git', '-C', '/repo', 'worktree', 'add', '--detach', wt, os.environ.get('SEED_BASE', 'HEAD')])
        assert r.returncode == 0, r.stderr
        r = sh(['git', '-C', wt, 'apply', os.path.abspath(os.path.join(src, 'patch.diff'))])
        meta['patch_applies'] = r.returncode == 0
        if r.returncode:
            print('PATCH DOES NOT APPLY', r.stderr)
            return 2
        env = dict(os.environ, PYTHONPATH=wt, PYTHONDONTWRITEBYTECODE='1')
        r = sh('/venv/bin/python -m pytest -q -p no:cacheprovider 2>&1 | tail -1', cwd=wt, env=env)
        meta['suite'] = r.stdout.strip()
        meta['ran'].append('cd <patched tree> && /venv/bin/python -m pytest -q -p no:cacheprovider -> ' + meta['suite'])
        print('suite:', meta['suite'])
        demo = os.path.join(src, 'demo.py')
        r1 = sh(['/venv/bin/python', demo, wt], env=dict(os.environ, PYTHONDONTWRITEBYTECODE='1'), timeout=300)
        r0 = sh(['/venv/bin/python', demo, '/repo'], env=dict(os.environ, PYTHONDONTWRITEBYTECODE='1'), timeout=300)
        meta['demo_patched_exit'] = r1.returncode
        meta['demo_unpatched_exit'] = r0.returncode
        meta['demo_output'] = (r1.stdout + r1.stderr)[-600:]
        meta['ran'].append('demo.py <patched tree> -> exit %d; demo.py /repo -> exit %d' % (r1.returncode, r0.returncode))
        print('demo: patched exit', r1.returncode, ' unpatched exit', r0.returncode)
        caught = {}
        for c in checks:
            t = time.time()
            r = sh([os.environ.get('VERIF_HOME', '/verif') + '/check', c, '--tier', os.environ.get('TIER', 'quick')],
                   env=dict(os.environ, VERIF_REPO=wt), timeout=3000)
            sigs = [l.strip().split(' ')[0] for l in r.stdout.splitlines() if l.strip().startswith('sig=')]
            status = 'VIOLATION' if r.returncode == 1 else 'silent' if r.returncode == 0 else 'BROKEN(%d)' % r.returncode
            caught[c] = {'status': status, 'sigs': sigs[:6], 'wall_s': round(time.time() - t, 1)}
            print(c, status, sigs[:4])
            if status.startswith('BROKEN'):
                print(r.stdout[-1500:], r.stderr[-500:])
        meta['checks'] = caught
        meta['caught_by'] = [c for c, v in caught.items() if v['status'] == 'VIOLATION']
        meta['ran'].append('VERIF_REPO=<patched tree> /verif/check <ID> --tier quick for ' + ' '.join(checks))
        out = os.path.join('/verif/seeded', name)
        os.makedirs(out, exist_ok=True)
        shutil.copy(os.path.join(src, 'patch.diff'), out)
        shutil.copy(demo, out)
        notes = os.path.join(src, 'notes.md')
        if os.path.exists(notes):
            meta['needs_to_manifest'] = open(notes).read()[:1500]
        json.dump(meta, open(os.path.join(out, 'meta.json'), 'w'), indent=1)
        return 0
    finally:
        sh(['git', '-C', '/repo', 'worktree', 'remove', '--force', wt])
        shutil.rmtree(wt, ignore_errors=True)


if __name__ == '__main__':
    sys.exit(main())
