#!/venv/bin/python
"""prints the markdown table of /verif/seeded/*/meta.json (DESIGN.md section 7b)"""
import glob
import json
import os

rows = []
for p in sorted(glob.glob('/verif/seeded/*/meta.json')):
    m = json.load(open(p))
    first = (m.get('needs_to_manifest') or '').strip().splitlines()
    what = ''
    for l in first:
        l = l.strip().lstrip('#').strip()
        if len(l) > 30:
            what = l
            break
    own = m['property'] in m.get('caught_by', [])
    hp = os.path.join(os.path.dirname(p), 'holdout.json')
    caught = list(m.get('caught_by', []))
    hold = '-'
    if os.path.exists(hp):
        h = json.load(open(hp))
        hold = 'caught' if h['own_check_caught'] else 'MISSED'
        caught = sorted(set(caught) | set(h['caught_by']))
    rows.append('| %s | %s | %s | %s | %s | %s | %s |' % (
        m['name'], m['property'], what[:150].replace('|', '/'), m.get('suite', '').split(',')[0], hold,
        'no longer a violation (see meta.json)' if m.get('obsolete') else 'yes' if own else 'NO',
        ', '.join(caught) or 'none'))
print('| seeded change | breaks | what it is | repo suite | holdout (before strengthening) | caught by its own check now '
      '| quick checks seen reporting it |')
print('|---|---|---|---|---|---|---|')
print('\n'.join(rows))
