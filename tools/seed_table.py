#!/venv/bin/python
"""prints the markdown table of /verif/seeded/*/meta.json (DESIGN.md section 7b)"""
import glob
import json
import os

rows = []
for p in sorted(glob.glob('/verif/seeded/*/meta.json')):
    m = json.load(open(p))
    first = (m.get('needs_to_manifest') or '').strip().splitlines()
    what = ''
    for l in first:
        l = l.strip().lstrip('#').strip()
        if len(l) > 30:
            what = l
            break
    own = m['property'] in m.get('caught_by', [])
    rows.append('| %s | %s | %s | %s | %s | %s |' % (
        m['name'], m['property'], what[:150].replace('|', '/'), m.get('suite', '').split(',')[0],
        'yes' if own else 'NO', ', '.join(m.get('caught_by', [])) or 'none'))
print('| seeded change | breaks | what it is | repo suite | caught by its own check | all quick checks reporting it |')
print('|---|---|---|---|---|---|')
print('\n'.join(rows))
